//! Shadow model: logical values of images, the reference predicates of the constructors
//! (C12) and of Unspecified-metadata resolution (C15), and data generation from seeds.

use crate::ops::{CfgI, Op, CL_HSL, CL_LIN, CL_RGB, CL_XYB, MATS, PRIS, TRCS};
use crate::rng::mix;
use std::sync::Arc;
use yuvxyb::{
    CastFromPrimitive, ColorPrimaries as Cp, Frame, Hsl, LinearRgb, MatrixCoefficients as Mc, Pixel, Plane, Rgb,
    TransferCharacteristic as Tc, Xyb, Yuv,
};

/// light mode (Miri engine): skip physical buffer snapshots
pub static LIGHT: std::sync::atomic::AtomicBool = std::sync::atomic::AtomicBool::new(false);

#[derive(Clone, Debug, PartialEq, Eq, Hash)]
pub struct PlaneVal {
    pub w: usize,
    pub h: usize,
    pub xdec: usize,
    pub ydec: usize,
    /// visible samples, row major
    pub s: Vec<u16>,
}

/// Logical value of an image: everything the public accessors expose, layout-free.
#[derive(Clone, Debug, PartialEq, Eq, Hash)]
pub enum Val {
    Yuv { ty: u64, cfg: CfgI, planes: [PlaneVal; 3] },
    /// class = CL_RGB | CL_LIN | CL_XYB | CL_HSL; t,p only meaningful for Rgb (0 otherwise);
    /// raw bit patterns (NaN sign and payload included: they are part of what a later
    /// conversion is given)
    Flt { class: u64, w: usize, h: usize, t: u64, p: u64, bits: Vec<[u32; 3]> },
}

impl Val {
    pub fn class(&self) -> u64 {
        match self {
            Val::Yuv { ty, .. } => *ty,
            Val::Flt { class, .. } => *class,
        }
    }
    pub fn dims(&self) -> (usize, usize) {
        match self {
            Val::Yuv { planes, .. } => (planes[0].w, planes[0].h),
            Val::Flt { w, h, .. } => (*w, *h),
        }
    }
    pub fn digest(&self) -> u64 {
        let mut d = 0xcbf2_9ce4_8422_2325u64;
        let mut f = |x: u64| {
            d = mix(d, x);
        };
        match self {
            Val::Yuv { ty, cfg, planes } => {
                f(*ty);
                for x in [cfg.bd, cfg.ssx, cfg.ssy, cfg.full, cfg.mc, cfg.tc, cfg.cp] {
                    f(x);
                }
                for p in planes {
                    for x in [p.w, p.h, p.xdec, p.ydec] {
                        f(x as u64);
                    }
                    for s in &p.s {
                        f(u64::from(*s));
                    }
                }
            }
            Val::Flt { class, w, h, t, p, bits } => {
                for x in [*class, *w as u64, *h as u64, *t, *p] {
                    f(x);
                }
                for b in bits {
                    f(u64::from(b[0]) | u64::from(b[1]) << 32);
                    f(u64::from(b[2]));
                }
            }
        }
        d
    }
    /// short human-readable description
    pub fn brief(&self) -> String {
        match self {
            Val::Yuv { ty, cfg, planes } => format!(
                "Yuv<{}> {}x{} chroma {}x{}/{}x{} bd={} ss=({},{}) full={} {:?}/{:?}/{:?}",
                if *ty == 0 { "u8" } else { "u16" },
                planes[0].w,
                planes[0].h,
                planes[1].w,
                planes[1].h,
                planes[2].w,
                planes[2].h,
                cfg.bd,
                cfg.ssx,
                cfg.ssy,
                cfg.full,
                MATS[cfg.mc as usize],
                TRCS[cfg.tc as usize],
                PRIS[cfg.cp as usize]
            ),
            Val::Flt { class, w, h, t, p, .. } => {
                format!("{} {}x{} t={:?} p={:?}", crate::ops::class_name(*class), w, h, TRCS[*t as usize], PRIS[*p as usize])
            }
        }
    }
}

pub fn bits_of(data: &[[f32; 3]]) -> Vec<[u32; 3]> {
    data.iter().map(|p| [p[0].to_bits(), p[1].to_bits(), p[2].to_bits()]).collect()
}

/// A float pixel is "special" when a component is non-finite or so large that arithmetic on it
/// overflows into infinities and NaNs. Rust leaves sign and payload of a NaN *produced by
/// arithmetic* unspecified, and some curves (xvYCC) copy the sign of such an intermediate into
/// a finite result, so output pixels that stem from special input pixels are compared for
/// nothing but memory safety (I1) and isolation from their neighbours.
pub fn special_px(px: &[u32; 3]) -> bool {
    px.iter().any(|b| {
        let f = f32::from_bits(*b);
        // (-0.0 is NOT special: `f32::max(-0.0, 0.0)` may return either zero, but within one
        // build - and under Miri with deterministic floats - it returns the same one every time)
        !(f.is_finite() && f.abs() <= 1e30)
    })
}
/// per-pixel mask of special input pixels; None when there is none (the common case)
pub fn special_mask(input: &Val) -> Option<Vec<bool>> {
    match input {
        Val::Flt { bits, .. } => {
            if bits.iter().any(special_px) {
                Some(bits.iter().map(special_px).collect())
            } else {
                None
            }
        }
        Val::Yuv { .. } => None,
    }
}
fn bits_agree(a: u32, b: u32) -> bool {
    a == b || (f32::from_bits(a).is_nan() && f32::from_bits(b).is_nan())
}
/// Do two results of the same conversion of `input` agree? Bit for bit, except that output
/// pixels stemming from special input pixels are exempt and NaN compares equal to NaN.
pub fn vals_agree(a: &Val, b: &Val, input: &Val) -> bool {
    let mask = special_mask(input);
    let (iw, _ih) = input.dims();
    match (a, b) {
        (Val::Flt { class: c1, w: w1, h: h1, t: t1, p: p1, bits: b1 }, Val::Flt { class: c2, w: w2, h: h2, t: t2, p: p2, bits: b2 }) => {
            if (c1, w1, h1, t1, p1) != (c2, w2, h2, t2, p2) || b1.len() != b2.len() {
                return false;
            }
            b1.iter().zip(b2.iter()).enumerate().all(|(i, (x, y))| {
                mask.as_ref().map_or(false, |m| m.get(i).copied().unwrap_or(false)) || (0..3).all(|c| bits_agree(x[c], y[c]))
            })
        }
        (Val::Yuv { ty: t1, cfg: c1, planes: p1 }, Val::Yuv { ty: t2, cfg: c2, planes: p2 }) => {
            if t1 != t2 || c1 != c2 {
                return false;
            }
            for pl in 0..3 {
                let (x, y) = (&p1[pl], &p2[pl]);
                if (x.w, x.h, x.xdec, x.ydec) != (y.w, y.h, y.xdec, y.ydec) || x.s.len() != y.s.len() {
                    return false;
                }
            }
            let Some(m) = mask else { return p1 == p2 };
            let special_at = |px: usize, py: usize| m.get(py * iw + px).copied().unwrap_or(true);
            for pl in 0..3 {
                let (sx, sy) = if pl == 0 { (0, 0) } else { (c1.ssx as usize, c1.ssy as usize) };
                let pv = &p1[pl];
                for cy in 0..pv.h {
                    for cx in 0..pv.w {
                        let mut tainted = false;
                        for py in (cy << sy)..((cy + 1) << sy) {
                            for px in (cx << sx)..((cx + 1) << sx) {
                                tainted |= special_at(px, py);
                            }
                        }
                        if !tainted && pv.s[cy * pv.w + cx] != p2[pl].s[cy * pv.w + cx] {
                            return false;
                        }
                    }
                }
            }
            true
        }
        _ => false,
    }
}
pub fn floats_of(bits: &[[u32; 3]]) -> Vec<[f32; 3]> {
    bits.iter().map(|b| [f32::from_bits(b[0]), f32::from_bits(b[1]), f32::from_bits(b[2])]).collect()
}

/// Physical snapshot of a YUV image: full buffers (padding included) and plane configs.
#[derive(Clone, Debug, PartialEq, Eq)]
pub struct Phys {
    pub bufs: [Vec<u16>; 3],
    pub cfgs: [[usize; 10]; 3],
}

pub fn plane_cfg_arr<T: Pixel>(p: &Plane<T>) -> [usize; 10] {
    let c = &p.cfg;
    [c.stride, c.alloc_height, c.width, c.height, c.xdec, c.ydec, c.xpad, c.ypad, c.xorigin, c.yorigin]
}

pub fn val_of_yuv<T: Pixel>(y: &Yuv<T>) -> Val {
    let ty = if std::mem::size_of::<T>() == 1 { 0 } else { 1 };
    let pl = |p: &Plane<T>| {
        let (w, h) = (p.cfg.width, p.cfg.height);
        let mut s = Vec::with_capacity(w * h);
        for row in 0..h {
            for col in 0..w {
                s.push(u16::cast_from(p.p(col, row)));
            }
        }
        PlaneVal { w, h, xdec: p.cfg.xdec, ydec: p.cfg.ydec, s }
    };
    let d = y.data();
    Val::Yuv { ty, cfg: CfgI::from_cfg(y.config()), planes: [pl(&d[0]), pl(&d[1]), pl(&d[2])] }
}
pub fn phys_of_yuv<T: Pixel>(y: &Yuv<T>) -> Phys {
    let d = y.data();
    let buf = |p: &Plane<T>| p.data.iter().map(|v| u16::cast_from(*v)).collect::<Vec<u16>>();
    Phys { bufs: [buf(&d[0]), buf(&d[1]), buf(&d[2])], cfgs: [plane_cfg_arr(&d[0]), plane_cfg_arr(&d[1]), plane_cfg_arr(&d[2])] }
}
pub fn val_of_rgb(r: &Rgb) -> Val {
    Val::Flt {
        class: CL_RGB,
        w: r.width(),
        h: r.height(),
        t: crate::ops::trc_index(r.transfer()),
        p: crate::ops::pri_index(r.primaries()),
        bits: bits_of(r.data()),
    }
}
pub fn val_of_lin(r: &LinearRgb) -> Val {
    Val::Flt { class: CL_LIN, w: r.width(), h: r.height(), t: 0, p: 0, bits: bits_of(r.data()) }
}
pub fn val_of_xyb(r: &Xyb) -> Val {
    Val::Flt { class: CL_XYB, w: r.width(), h: r.height(), t: 0, p: 0, bits: bits_of(r.data()) }
}
pub fn val_of_hsl(r: &Hsl) -> Val {
    Val::Flt { class: CL_HSL, w: r.width(), h: r.height(), t: 0, p: 0, bits: bits_of(r.data()) }
}

// ------------------------------------------------------------------ live objects
#[derive(Clone, Debug)]
pub enum Obj {
    Y8(Arc<Yuv<u8>>),
    Y16(Arc<Yuv<u16>>),
    Rgb(Arc<Rgb>),
    Lin(Arc<LinearRgb>),
    Xyb(Arc<Xyb>),
    Hsl(Arc<Hsl>),
}
impl Obj {
    pub fn val(&self) -> Val {
        match self {
            Obj::Y8(y) => val_of_yuv(y),
            Obj::Y16(y) => val_of_yuv(y),
            Obj::Rgb(r) => val_of_rgb(r),
            Obj::Lin(r) => val_of_lin(r),
            Obj::Xyb(r) => val_of_xyb(r),
            Obj::Hsl(r) => val_of_hsl(r),
        }
    }
    pub fn phys(&self) -> Option<Phys> {
        // Under Miri a buffer snapshot costs ~0.1 s (v_frame pads every row to 64 bytes); there
        // Miri itself watches for writes through shared borrows, and the logical value is compared.
        if LIGHT.load(std::sync::atomic::Ordering::Relaxed) {
            return None;
        }
        match self {
            Obj::Y8(y) => Some(phys_of_yuv(y)),
            Obj::Y16(y) => Some(phys_of_yuv(y)),
            _ => None,
        }
    }
}

// ------------------------------------------------------------------ data from seeds
const SPECIALS: [u32; 22] = [
    0x7fc0_0000, // NaN
    0xffc0_0001, // -NaN with payload
    0x7f80_0000, // +inf
    0xff80_0000, // -inf
    0x7f61_b1e6, // ~3e38
    0xff61_b1e6, // ~-3e38
    0x7f7f_ffff, // MAX
    0x0001_16c2, // subnormal 1e-40
    0x8001_16c2, // -subnormal
    0x8000_0000, // -0
    0x0000_0000, // 0
    0x3f80_0000, // 1
    0x0080_0000, // MIN_POSITIVE
    0xbf00_0000, // -0.5
    // boundaries of documented ranges and their neighbours
    0x3f80_0001, // 1.0 + ulp
    0x3f7f_ffff, // 1.0 - ulp
    0x43b4_0000, // 360.0 (the Hsl documentation allows H = 360)
    0x43b3_ffff, // 360.0 - ulp
    0x43b4_0001, // 360.0 + ulp
    0x437f_0000, // 255.0
    0x477f_ff00, // 65535.0
    0x3f00_0000, // 0.5
];

const RUN_PALETTE: [[u32; 3]; 6] = [
    [0x0000_0000, 0x3e80_0000, 0x3f00_0000], // 0, .25, .5
    [0x0000_0000, 0x0000_0000, 0x0000_0000],
    [0x3f80_0000, 0x0000_0000, 0x3f00_0000],
    [0x3f00_0000, 0x3f00_0000, 0x0000_0000],
    [0x3e80_0000, 0x3f40_0000, 0x3f80_0000],
    [0x0000_0000, 0x3f80_0000, 0x3f80_0000],
];

pub fn float_pixel(seed: u64, mode: u64, i: u64) -> [u32; 3] {
    if mode == 8 {
        // every special value once per channel within any 22 consecutive pixels, the three
        // channels walking the table at different offsets (so every pair meets over seeds)
        let n = SPECIALS.len() as u64;
        let (a, b) = (1 + mix(seed, 0xc000) % (n - 1), 1 + mix(seed, 0xc001) % (n - 1));
        return [SPECIALS[(i % n) as usize], SPECIALS[((i + a) % n) as usize], SPECIALS[((i * 3 + b) % n) as usize]];
    }
    if mode == 7 {
        // grey pixels whose value sits on (or an ulp or two beside) a quantisation boundary
        // k + 0.5 of some integer format: where a fused and an unfused multiply-add, or two
        // differently ordered sums, round to different codes
        let r = mix(seed, 0xb000 + i);
        let (range, black): (f64, f64) = [(219.0, 16.0), (255.0, 0.0), (876.0, 64.0), (1023.0, 0.0), (224.0, 128.0), (3504.0, 256.0), (65535.0, 0.0)][(r % 7) as usize];
        let k = (r >> 8) % (range as u64 + 1);
        let v = ((k as f64 + 0.5) - black) / range;
        let mut bits = (v as f32).to_bits();
        bits = bits.wrapping_add(((r >> 40) % 5) as u32).wrapping_sub(2);
        return [bits, bits, bits];
    }
    if mode == 9 {
        // near-duplicates: runs as in mode 6, drawn from ordinary colours, in which a pixel
        // now and then differs from its predecessor by one to three units in the last place
        // of one channel (or is 1.0 next to its predecessor, or a subnormal next to zero).
        // Equal for every tolerance-based comparison, different bit patterns: what a cache
        // keyed on "approximately the same colour as the previous pixel" gets wrong
        let mut start = i;
        while start > 0 && mix(seed, 0x7100 + start) % 4 != 0 {
            start -= 1;
        }
        let base = mix(seed, 0x8100 + start);
        let mut px = match base % 5 {
            0 => [0u32, 0, 0],
            1 => [0x3f80_0000, 0x3f80_0000, 0x3f80_0000],
            2 => [0x3f00_0000, 0x3f00_0000, 0x3f00_0000],
            _ => {
                let c = |k: u64| ((mix(seed, 0x8200 + start * 3 + k) >> 40) as f32 / (1u64 << 24) as f32).to_bits();
                [c(0), c(1), c(2)]
            }
        };
        if i != start {
            let j = mix(seed, 0x9100 + i);
            if j % 3 != 0 {
                let c = (j >> 8) as usize % 3;
                let d = 1 + (j >> 16) as u32 % 3;
                // move within the positive floats (0 -> subnormal, 1.0 -> just below / above)
                px[c] = if (j >> 24) % 2 == 0 || px[c] < d { px[c].wrapping_add(d) } else { px[c] - d };
            }
        }
        return px;
    }
    if mode == 6 {
        // runs: pixel i belongs to the run that started at the last index whose "start" bit is
        // set; inside a run every pixel is the run's palette entry, with the sign of its zeros
        // flipped now and then (equal under ==, different bit patterns)
        let mut start = i;
        while start > 0 && mix(seed, 0x7000 + start) % 5 < 3 {
            start -= 1;
        }
        let mut px = RUN_PALETTE[(mix(seed, 0x8000 + start) % RUN_PALETTE.len() as u64) as usize];
        let flips = mix(seed, 0x9000 + i);
        for (c, v) in px.iter_mut().enumerate() {
            if *v == 0 && (flips >> (c * 4)) % 3 == 0 {
                *v = 0x8000_0000;
            }
        }
        return px;
    }
    let mut out = [0u32; 3];
    for (c, o) in out.iter_mut().enumerate() {
        let r = mix(seed, i * 3 + c as u64);
        let unit = (r >> 40) as f32 / (1u64 << 24) as f32; // [0,1)
        let v: f32 = match mode {
            4 => {
                // any bit pattern at all
                *o = (r >> 16) as u32;
                continue;
            }
            0 => {
                // unit cube; a quarter of the samples on the 10-bit grid including 0 and 1
                if r & 3 == 0 {
                    ((r >> 8) % 1024) as f32 / 1023.0
                } else {
                    unit
                }
            }
            1 => unit * 2.0 - 0.5,
            2 => {
                if r % 3 != 0 {
                    *o = SPECIALS[((r >> 8) % SPECIALS.len() as u64) as usize];
                    continue;
                }
                unit
            }
            _ => {
                // HSL ranges: H in [0,360], S,L in [0,1]; a sixth of the hues on the sextant
                // boundaries (360 included: the type's documentation allows it)
                if c == 0 {
                    if r % 6 == 0 {
                        ((r >> 8) % 7) as f32 * 60.0
                    } else {
                        unit * 360.0
                    }
                } else if r & 7 == 0 {
                    ((r >> 8) % 2) as f32
                } else {
                    unit
                }
            }
        };
        *o = v.to_bits();
    }
    out
}

/// Model of a `NewFloat` op: the data handed to the constructor (raw bits: NaN payloads and
/// signs are fed to the library as they are).
pub fn float_data(op: &Op) -> Vec<[u32; 3]> {
    (0..op.geo[0]).map(|i| float_pixel(op.dataseed, op.datamode, i)).collect()
}
/// `Val` stores raw bits
pub fn canon_px(px: [u32; 3]) -> [u32; 3] {
    px
}

/// Visible sample (plane pl, column x, row y) of a `NewYuv` op.
pub fn yuv_sample(op: &Op, pl: usize, x: usize, y: usize) -> u16 {
    let bd = op.cfg.bd;
    let tmax: u64 = if op.which == 0 { 255 } else { 65535 };
    let cmax: u64 = ((1u64 << bd) - 1).min(tmax);
    // mode 4: structured planes. Each plane, independently of the others, is random, constant,
    // made of identical rows, of identical columns, of rows repeated in runs, or of row pairs -
    // flat areas, bars and stripes; what a shortcut for "same as the row above" would key on
    // (and what random samples never offer: two equal rows of 16 samples have probability 2^-128)
    // in a quarter of the structured frames the two chroma planes are equal to each other
    let pl = if op.datamode == 4 && pl == 2 && mix(op.dataseed, 0x5900) % 4 == 0 { 1 } else { pl };
    if op.datamode == 8 {
        // video content with neutral areas: greyscale (chroma planes neutral everywhere),
        // letterbox / pillarbox bars (black luma, neutral chroma), or a neutral-chroma top part
        // above a coloured rest. Neutral chroma decodes to exactly 0.0: where "is this image
        // grey?" shortcuts live.
        let neutral = (1u64 << (bd - 1)).min(tmax);
        let black = if op.cfg.full != 0 { 0 } else { 16u64 << (bd - 8) };
        let (lw, lh) = (op.geo[0].max(1), op.geo[1].max(1));
        // position of this sample in luma coordinates
        let (sx, sy) = if pl == 0 { (0, 0) } else { (op.cfg.ssx, op.cfg.ssy) };
        let (lx, ly) = ((x as u64) << sx, (y as u64) << sy);
        let hsh = mix(op.dataseed, 0x6c62);
        let style = hsh % 4;
        let kx = 1 + (hsh >> 8) % (lw / 2).max(1);
        let ky = 1 + (hsh >> 24) % (lh / 2).max(1);
        let in_bar = match style {
            1 => ly < ky || ly + ky >= lh,
            2 => lx < kx || lx + kx >= lw,
            _ => false,
        };
        let r = mix(op.dataseed, (pl as u64) << 40 | (y as u64) << 20 | x as u64);
        let v = if pl == 0 {
            if in_bar { black } else { r % (cmax + 1) }
        } else if style == 0 || in_bar || (style == 3 && ly < ky.max(lh / 2)) {
            neutral
        } else {
            r % (cmax + 1)
        };
        return v.min(tmax) as u16;
    }
    let (x, y) = if op.datamode == 4 {
        match mix(op.dataseed, 0x5700 + pl as u64) % 7 {
            0 => (x, y),
            1 => (0, 0),
            2 | 3 => (x, 0),
            4 => (0, y),
            5 => {
                let mut start = y;
                while start > 0 && mix(op.dataseed, 0x5800 + ((pl as u64) << 24) + start as u64) % 3 != 0 {
                    start -= 1;
                }
                (x, start)
            }
            _ => (x, y & !1),
        }
    } else {
        (x, y)
    };
    let r = mix(op.dataseed, (pl as u64) << 40 | (y as u64) << 20 | x as u64);
    let k = 1u64 << (bd - 8);
    // an out-of-range value: half of the time on a boundary - exactly one above the maximum,
    // two above, a single high bit (2^n ... 2^15), the largest value of the storage type
    let oob = |h: u64| -> u64 {
        if tmax <= cmax {
            return cmax;
        }
        match h % 10 {
            0..=2 => cmax + 1,
            3 => (cmax + 2).min(tmax),
            4 => tmax,
            5 => (1u64 << (bd + (h >> 8) % (16 - bd).max(1))).min(tmax),
            _ => cmax + 1 + (h >> 4) % (tmax - cmax),
        }
    };
    let v = match op.datamode {
        1 => {
            let (lo, hi) = if pl == 0 { (16 * k, 235 * k) } else { (16 * k, 240 * k) };
            (lo + r % (hi - lo + 1)).min(cmax)
        }
        3 => *[0, cmax, cmax / 2 + 1, 16 * k, 235 * k, 240 * k, 1, cmax - 1].get((r % 8) as usize).unwrap_or(&0),
        6 | 7 if has_oob_sample(op) => {
            // one out-of-range VALUE: everywhere (7), or at the mode-2 position and one to three
            // more visible positions (6); everything else valid
            let value = oob(mix(op.dataseed, 0xe9));
            let (bw, bh, bp) = oob_position(op);
            if op.datamode == 7 || (pl == bp && x == bw && y == bh) {
                value
            } else {
                let (pw, ph) = plane_dims(op, pl);
                let n = (pw * ph * 3).max(1) as u64;
                let extra = 1 + mix(op.dataseed, 0xea) % 3;
                // expected `extra` more hits over the three planes
                if r % n < extra {
                    value
                } else {
                    (r >> 20) % (cmax + 1)
                }
            }
        }
        2 | 5 if has_oob_sample(op) => {
            // valid everywhere except one visible sample chosen by the seed (mode 5: and about
            // every eighth other sample)
            let (bw, bh, bp) = oob_position(op);
            if (pl == bp && x == bw && y == bh) || (op.datamode == 5 && (r >> 50) % 8 == 0) {
                oob(r)
            } else {
                r % (cmax + 1)
            }
        }
        _ => r % (cmax + 1),
    };
    v.min(tmax) as u16
}
fn plane_dims(op: &Op, pl: usize) -> (usize, usize) {
    match pl {
        0 => (op.geo[0] as usize, op.geo[1] as usize),
        1 => (op.geo[2] as usize, op.geo[3] as usize),
        _ => (op.geo[6] as usize, op.geo[7] as usize),
    }
}
fn oob_position(op: &Op) -> (usize, usize, usize) {
    let r = mix(op.dataseed, 0xbad);
    let pl = (r % 3) as usize;
    let (w, h) = plane_dims(op, pl);
    let (x, y) = (((r >> 8) % w as u64) as usize, ((r >> 32) % h as u64) as usize);
    // half of the positions are on the border of the plane: last/first row, last column, corner
    // (remainder rows and columns of banded or chunked scans)
    let (x, y) = match mix(op.dataseed, 0xbad1) % 8 {
        0 => (x, h - 1),
        1 => (x, 0),
        2 => (w - 1, y),
        3 => (w - 1, h - 1),
        _ => (x, y),
    };
    (x, y, pl)
}
pub fn has_oob_sample(op: &Op) -> bool {
    matches!(op.datamode, 2 | 5 | 6 | 7) && op.which == 1 && op.cfg.bd < 16
}


/// Builds the frame a `NewYuv` op describes, through the public frame types only.
/// Contents of an invisible sample (padding, alignment slot, window surroundings): mostly any
/// value of the storage type (also ones illegal for the depth); for some frames the neutral
/// chroma code everywhere (what `Plane::new` leaves behind in 8-bit planes), zero, or random
/// values that are legal for the depth.
fn pad_value(op: &Op, pl: usize, i: usize) -> u16 {
    let seed = op.padseed | 1;
    let r = mix(seed, (pl as u64) << 40 | i as u64);
    let tmax: u64 = if op.which == 0 { 255 } else { 65535 };
    let cmax = ((1u64 << op.cfg.bd) - 1).min(tmax);
    (match seed % 16 {
        3 => (1u64 << (op.cfg.bd - 1)).min(tmax),
        5 => 0,
        11 => r % (cmax + 1),
        _ => r & 0xffff,
    }) as u16
}

pub fn build_frame<T: Pixel>(op: &Op) -> Frame<T> {
    let g = &op.geo;
    let mk = |pl: usize| -> Plane<T> {
        let (w, h) = plane_dims(op, pl);
        let (xdec, ydec) = match pl {
            // the luma plane's decimation fields are the caller's business: no rule mentions them
            0 => (op.t as usize, op.p as usize),
            1 => (g[4] as usize, g[5] as usize),
            _ => (g[8] as usize, g[9] as usize),
        };
        if op.consume == 2 {
            // a window into a larger packed buffer, described through the public config fields:
            // `xorigin`/`yorigin` samples in front, a few samples behind each row, and (mostly)
            // the last visible row is the last row of the allocation
            let (xo, yo) = (g[10 + 2 * pl] as usize, g[11 + 2 * pl] as usize);
            let slack = mix(op.dataseed, 0x77 + pl as u64);
            // a third of the window frames are cropped vertically only, on all three planes at
            // once: rows stay packed (stride == width, xpad == ypad == 0 as `from_slice` leaves
            // them) and only whole rows above or below are invisible - the layout a "this plane
            // has no padding" test mistakes for an uncropped buffer
            let vertical_only = mix(op.dataseed, 0x76) % 3 == 0;
            let xo = if vertical_only { 0 } else { xo };
            let stride = xo + w + if vertical_only { 0 } else { (slack % 4) as usize };
            let rows = yo + h + usize::from((slack >> 8) % 10 < 3 || (vertical_only && yo == 0));
            let mut data: Vec<T> = (0..stride * rows).map(|i| T::cast_from(pad_value(op, pl, i))).collect();
            for y in 0..h {
                for x in 0..w {
                    data[(y + yo) * stride + x + xo] = T::cast_from(yuv_sample(op, pl, x, y));
                }
            }
            let mut p: Plane<T> = Plane::from_slice(&data, stride);
            p.cfg.width = w;
            p.cfg.height = h;
            p.cfg.xorigin = xo;
            p.cfg.yorigin = yo;
            p.cfg.xdec = xdec;
            p.cfg.ydec = ydec;
            return p;
        }
        if op.consume != 0 {
            // rows packed back to back; `from_slice` knows nothing about decimation, the public
            // config fields are set afterwards
            let data: Vec<T> = (0..w * h).map(|i| T::cast_from(yuv_sample(op, pl, i % w, i / w))).collect();
            let mut p: Plane<T> = Plane::from_slice(&data, w);
            p.cfg.xdec = xdec;
            p.cfg.ydec = ydec;
            return p;
        }
        let (xpad, ypad) = (g[10 + 2 * pl] as usize, g[11 + 2 * pl] as usize);
        let mut p: Plane<T> = Plane::new(w, h, xdec, ydec, xpad, ypad);
        let (stride, xo, yo) = (p.cfg.stride, p.cfg.xorigin, p.cfg.yorigin);
        if op.padseed != 0 {
            // padding contents: any value of the storage type, also ones illegal for the depth
            for (i, v) in p.data.iter_mut().enumerate() {
                *v = T::cast_from(pad_value(op, pl, i));
            }
        }
        for y in 0..h {
            for x in 0..w {
                p.data[(y + yo) * stride + x + xo] = T::cast_from(yuv_sample(op, pl, x, y));
            }
        }
        p
    };
    Frame { planes: [mk(0), mk(1), mk(2)] }
}

/// Canonical (unpadded, default padding bytes) frame holding a logical YUV value.
pub fn frame_from_val<T: Pixel>(planes: &[PlaneVal; 3]) -> Frame<T> {
    let mk = |pv: &PlaneVal| -> Plane<T> {
        let mut p: Plane<T> = Plane::new(pv.w, pv.h, pv.xdec, pv.ydec, 0, 0);
        let stride = p.cfg.stride;
        for y in 0..pv.h {
            for x in 0..pv.w {
                p.data[y * stride + x] = T::cast_from(pv.s[y * pv.w + x]);
            }
        }
        p
    };
    Frame { planes: [mk(&planes[0]), mk(&planes[1]), mk(&planes[2])] }
}

// ------------------------------------------------------------------ reference models
#[derive(Clone, Copy, Debug, PartialEq, Eq)]
pub enum YuvErrKind {
    SubsamplingMismatch,
    InvalidLumaWidth,
    InvalidLumaHeight,
    InvalidData,
    /// a failing condition for which the documentation names no particular variant
    AnyVariant,
}

/// C12 reference predicate for `Yuv::new`: Ok(()) = must accept; Err(set) = must reject with
/// one of these variants.
pub fn yuv_new_model(op: &Op) -> Result<(), Vec<YuvErrKind>> {
    let g = &op.geo;
    let c = op.cfg;
    let mut errs = Vec::new();
    if g[4] != c.ssx || g[8] != c.ssx || g[5] != c.ssy || g[9] != c.ssy {
        errs.push(YuvErrKind::SubsamplingMismatch);
    }
    if g[0] % (1 << c.ssx) != 0 {
        errs.push(YuvErrKind::InvalidLumaWidth);
    }
    if g[1] % (1 << c.ssy) != 0 {
        errs.push(YuvErrKind::InvalidLumaHeight);
    }
    let (cw, ch) = (g[0] >> c.ssx, g[1] >> c.ssy);
    if g[2] != cw || g[6] != cw || g[3] != ch || g[7] != ch {
        // "the chroma planes have the size the subsampling implies": the documented variant
        // closest to it is SubsamplingMismatch, but the text does not bind one
        errs.push(YuvErrKind::AnyVariant);
    }
    if has_oob_sample(op) {
        errs.push(YuvErrKind::InvalidData);
    }
    if errs.is_empty() {
        Ok(())
    } else {
        Err(errs)
    }
}

pub fn yuv_err_kind(e: yuvxyb::YuvError) -> YuvErrKind {
    match e {
        yuvxyb::YuvError::SubsamplingMismatch => YuvErrKind::SubsamplingMismatch,
        yuvxyb::YuvError::InvalidLumaWidth => YuvErrKind::InvalidLumaWidth,
        yuvxyb::YuvError::InvalidLumaHeight => YuvErrKind::InvalidLumaHeight,
        yuvxyb::YuvError::InvalidData => YuvErrKind::InvalidData,
    }
}

/// C15 reference: the mpv heuristic exactly as the property states it.
pub fn resolve_yuv_cfg(c: CfgI, w: usize, h: usize) -> CfgI {
    let mut o = c;
    if MATS[c.mc as usize] == Mc::Unspecified {
        let m = if w >= 1280 || h > 576 {
            Mc::BT709
        } else if h == 576 {
            Mc::BT470BG
        } else {
            Mc::ST170M
        };
        o.mc = crate::ops::mat_index(m);
    }
    if PRIS[c.cp as usize] == Cp::Unspecified {
        let m = MATS[o.mc as usize];
        let p = if m == Mc::BT2020NonConstantLuminance || m == Mc::BT2020ConstantLuminance {
            Cp::BT2020
        } else if m == Mc::BT709 || w >= 1280 || h > 576 {
            Cp::BT709
        } else if h == 576 {
            Cp::BT470BG
        } else if h == 480 || h == 488 {
            Cp::ST170M
        } else {
            Cp::BT709
        };
        o.cp = crate::ops::pri_index(p);
    }
    if TRCS[c.tc as usize] == Tc::Unspecified {
        o.tc = crate::ops::trc_index(Tc::BT1886);
    }
    o
}
pub fn resolve_rgb_tp(t: u64, p: u64) -> (u64, u64) {
    (
        if TRCS[t as usize] == Tc::Unspecified { crate::ops::trc_index(Tc::SRGB) } else { t },
        if PRIS[p as usize] == Cp::Unspecified { crate::ops::pri_index(Cp::BT709) } else { p },
    )
}
pub fn cfg_has_unspecified(c: CfgI) -> bool {
    c.mc == 0 || c.tc == 0 || c.cp == 0
}

/// Model value of an accepted `NewYuv`.
pub fn yuv_model_val(op: &Op) -> Val {
    let pl = |i: usize| {
        let (w, h) = plane_dims(op, i);
        let (xdec, ydec) = match i {
            0 => (op.t as usize, op.p as usize),
            1 => (op.geo[4] as usize, op.geo[5] as usize),
            _ => (op.geo[8] as usize, op.geo[9] as usize),
        };
        let mut s = Vec::with_capacity(w * h);
        for y in 0..h {
            for x in 0..w {
                s.push(yuv_sample(op, i, x, y));
            }
        }
        PlaneVal { w, h, xdec, ydec, s }
    };
    Val::Yuv { ty: op.which, cfg: resolve_yuv_cfg(op.cfg, op.geo[0] as usize, op.geo[1] as usize), planes: [pl(0), pl(1), pl(2)] }
}
/// Model value of an accepted `NewFloat`.
pub fn float_model_val(op: &Op) -> Val {
    let (t, p) = if op.which == CL_RGB { resolve_rgb_tp(op.t, op.p) } else { (0, 0) };
    Val::Flt { class: op.which, w: op.geo[1] as usize, h: op.geo[2] as usize, t, p, bits: float_data(op).into_iter().map(canon_px).collect() }
}

/// Builds a float image of `class` from a logical value through the public constructor.
pub fn float_obj(class: u64, bits: &[[u32; 3]], w: usize, h: usize, t: u64, p: u64) -> Result<Obj, yuvxyb::CreationError> {
    float_obj_from_vec(class, floats_of(bits), w, h, t, p)
}

/// Same, handing the constructor this very vector (its allocation becomes the image's).
pub fn float_obj_from_vec(class: u64, data: Vec<[f32; 3]>, w: usize, h: usize, t: u64, p: u64) -> Result<Obj, yuvxyb::CreationError> {
    Ok(match class {
        CL_RGB => Obj::Rgb(Arc::new(Rgb::new(data, w, h, TRCS[t as usize], PRIS[p as usize])?)),
        CL_LIN => Obj::Lin(Arc::new(LinearRgb::new(data, w, h)?)),
        CL_XYB => Obj::Xyb(Arc::new(Xyb::new(data, w, h)?)),
        _ => Obj::Hsl(Arc::new(Hsl::new(data, w, h)?)),
    })
}

/// Canonical rebuild of a live object from its logical value (fresh buffers, no padding).
pub fn rebuild(v: &Val) -> Obj {
    match v {
        Val::Yuv { ty, cfg, planes } => {
            if *ty == 0 {
                Obj::Y8(Arc::new(Yuv::new(frame_from_val::<u8>(planes), cfg.to_cfg()).expect("rebuild of an accepted Yuv<u8>")))
            } else {
                Obj::Y16(Arc::new(Yuv::new(frame_from_val::<u16>(planes), cfg.to_cfg()).expect("rebuild of an accepted Yuv<u16>")))
            }
        }
        Val::Flt { class, w, h, t, p, bits } => float_obj(*class, bits, *w, *h, *t, *p).expect("rebuild of an accepted float image"),
    }
}
