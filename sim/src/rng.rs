//! Small deterministic PRNG (splitmix64 seeding + xoshiro256**). No external crate.

#[derive(Clone, Debug)]
pub struct Rng {
    s: [u64; 4],
}

pub fn splitmix(x: &mut u64) -> u64 {
    *x = x.wrapping_add(0x9e37_79b9_7f4a_7c15);
    let mut z = *x;
    z = (z ^ (z >> 30)).wrapping_mul(0xbf58_476d_1ce4_e5b9);
    z = (z ^ (z >> 27)).wrapping_mul(0x94d0_49bb_1331_11eb);
    z ^ (z >> 31)
}

/// Stateless mixing of several words into one (used for per-sample data generation).
pub fn mix(a: u64, b: u64) -> u64 {
    let mut x = a ^ b.wrapping_mul(0x9e37_79b9_7f4a_7c15).rotate_left(23);
    splitmix(&mut x)
}

impl Rng {
    pub fn new(seed: u64) -> Self {
        let mut x = seed;
        Self { s: [splitmix(&mut x), splitmix(&mut x), splitmix(&mut x), splitmix(&mut x)] }
    }
    pub fn next(&mut self) -> u64 {
        let r = self.s[1].wrapping_mul(5).rotate_left(7).wrapping_mul(9);
        let t = self.s[1] << 17;
        self.s[2] ^= self.s[0];
        self.s[3] ^= self.s[1];
        self.s[1] ^= self.s[2];
        self.s[0] ^= self.s[3];
        self.s[2] ^= t;
        self.s[3] = self.s[3].rotate_left(45);
        r
    }
    /// uniform in 0..n (n > 0)
    pub fn below(&mut self, n: u64) -> u64 {
        debug_assert!(n > 0);
        ((u128::from(self.next()) * u128::from(n)) >> 64) as u64
    }
    /// uniform in lo..=hi
    pub fn range(&mut self, lo: u64, hi: u64) -> u64 {
        lo + self.below(hi - lo + 1)
    }
    /// true with probability pct/100
    pub fn pct(&mut self, pct: u64) -> bool {
        self.below(100) < pct
    }
    pub fn pick<T: Copy>(&mut self, xs: &[T]) -> T {
        xs[self.below(xs.len() as u64) as usize]
    }
}
