//! `dsim check`: runs sessions in parallel, the Miri engine beside them, aggregates coverage,
//! reproduces and minimises a failure, writes the replay file and the evidence file.

use crate::ops::{Kind, Profile, RunTrace, Trace};
use crate::{arg_u64, arg_val};
use std::collections::{BTreeMap, BTreeSet};
use std::path::{Path, PathBuf};
use std::process::{Command, Stdio};
use std::time::Instant;

#[derive(Clone, Debug)]
struct Viol {
    idx: u64,
    seed: u64,
    inv: String,
    props: String,
    key: String,
    msg: String,
    session_from: u64,
    /// found in a session of the shipped-profile binary
    shipped: bool,
}

fn kv<'a>(line: &'a str, key: &str) -> Option<&'a str> {
    line.split_whitespace().find_map(|t| t.strip_prefix(key).and_then(|r| r.strip_prefix('=')))
}

fn json_str(s: &str) -> String {
    let mut o = String::from("\"");
    for c in s.chars() {
        match c {
            '"' => o.push_str("\\\""),
            '\\' => o.push_str("\\\\"),
            '\n' => o.push_str("\\n"),
            '\t' => o.push_str("\\t"),
            c if (c as u32) < 0x20 => o.push_str(&format!("\\u{:04x}", c as u32)),
            c => o.push(c),
        }
    }
    o.push('"');
    o
}

struct Known {
    prop: String,
    key: String,
    what: String,
}
fn load_known(dir: &Path) -> Vec<Known> {
    let mut v = Vec::new();
    if let Ok(t) = std::fs::read_to_string(dir.join("KNOWN_FINDINGS.txt")) {
        for l in t.lines() {
            let l = l.trim();
            // "known: property=C07 key=I1:site what…"   ("fixed:" lines suppress nothing)
            if let Some(rest) = l.strip_prefix("known:") {
                if let (Some(p), Some(k)) = (kv(rest, "property"), kv(rest, "key")) {
                    v.push(Known { prop: p.into(), key: k.into(), what: rest.trim().into() });
                }
            }
        }
    }
    v
}

struct MiriResult {
    workloads: u64,
    executions: u64,
    failures: Vec<(u64, String)>, // (workload seed, first diagnostic line)
    error: Option<String>,
    wall_s: f64,
    cmds: Vec<String>,
}

fn run_miri(sim_dir: &Path, target: &Path, prof: Profile, prop: &str, base: u64, workloads: u64, seeds: u64) -> MiriResult {
    let t0 = Instant::now();
    let res = std::sync::Mutex::new(MiriResult { workloads: 0, executions: 0, failures: Vec::new(), error: None, wall_s: 0.0, cmds: Vec::new() });
    // build once, so that the parallel invocations below do not queue on cargo's build lock
    let warm = Command::new("cargo")
        .current_dir(sim_dir)
        .env("CARGO_NET_OFFLINE", "true")
        .env("CARGO_TARGET_DIR", target)
        .env("MIRIFLAGS", "")
        .args(["+nightly", "miri", "run", "--offline", "--no-default-features", "--quiet", "--", "evalone", "/nonexistent"])
        .output();
    if let Err(e) = warm {
        let mut r = res.into_inner().unwrap_or_else(std::sync::PoisonError::into_inner);
        r.error = Some(format!("cannot start cargo miri: {e}"));
        return r;
    }
    // each invocation runs its `seeds` Miri seeds in parallel by itself; run several invocations
    // at once when the seed count leaves cores idle
    // (workloads differ in length by an order of magnitude - batteries take a minute, random
    // mixes seconds -, so a few more invocations than cores keeps the long ones from queueing)
    let par = (16 / seeds.max(1)).clamp(1, 8);
    // long workloads first (for C07: batteries, then float batteries, then random mixes), so
    // that the wall time is the longest workload's and not the sum of a long and a short one
    let mut order: Vec<u64> = (0..workloads).collect();
    if prof == Profile::Safety {
        order.sort_by_key(|w| ([0u64, 2, 3, 1, 4][(w % 5) as usize], *w));
    }
    let order = &order;
    let next = std::sync::atomic::AtomicU64::new(0);
    std::thread::scope(|sc| {
        for _ in 0..par {
            sc.spawn(|| loop {
                let i = next.fetch_add(1, std::sync::atomic::Ordering::Relaxed);
                if i >= workloads || res.lock().map_or(true, |r| r.error.is_some()) {
                    break;
                }
                let w = order[i as usize];
                let wseed = base.wrapping_mul(1000).wrapping_add(w);
                // batteries are schedule-independent by construction (one thread, or two threads
                // on disjoint slots): one Miri seed each; the random mixes get them all
                let seeds = if prof == Profile::Safety && matches!(w % 5, 0 | 1 | 3) { 1 } else { seeds };
                let flags = format!("-Zmiri-many-seeds={}..{} -Zmiri-preemption-rate=0.05 -Zmiri-deterministic-floats", base, base + seeds);
                let out = Command::new("cargo")
                    .current_dir(sim_dir)
                    .env("MIRIFLAGS", &flags)
                    .env("CARGO_NET_OFFLINE", "true")
                    .env("CARGO_TARGET_DIR", target)
                    .args(["+nightly", "miri", "run", "--offline", "--no-default-features", "--quiet", "--", "miri", "--prop", prop, "--profile", prof.name(), "--seed", &wseed.to_string()])
                    .stdout(Stdio::piped())
                    .stderr(Stdio::piped())
                    .output();
                let mut r = res.lock().unwrap_or_else(std::sync::PoisonError::into_inner);
                r.cmds.push(format!("MIRIFLAGS=\"{flags}\" cargo +nightly miri run --offline --no-default-features -- miri --prop {prop} --profile {} --seed {wseed}", prof.name()));
                match out {
                    Err(e) => r.error = Some(format!("cannot start cargo miri: {e}")),
                    Ok(out) => {
                        let so = String::from_utf8_lossy(&out.stdout);
                        let se = String::from_utf8_lossy(&out.stderr);
                        let runs = so.lines().filter(|l| l.starts_with("MIRI-RUN")).count() as u64;
                        r.workloads += 1;
                        r.executions += runs;
                        if !out.status.success() {
                            let diag = se
                                .lines()
                                .chain(so.lines())
                                .find(|l| l.contains("Undefined Behavior") || l.contains("Data race") || l.starts_with("VIOL ") || l.starts_with("NON-UNWINDING-PANIC") || l.contains("unsafe precondition") || l.contains("memory leaked"))
                                .map(str::to_string);
                            match diag {
                                Some(d) => {
                                    let seedline = se.lines().chain(so.lines()).find(|l| l.contains("FAILING SEED")).unwrap_or("").to_string();
                                    r.failures.push((wseed, format!("{d} {seedline}")));
                                }
                                None => {
                                    let tail: Vec<&str> = se.lines().rev().take(12).collect();
                                    r.error = Some(format!("cargo miri failed without a recognisable diagnostic: {}", tail.into_iter().rev().collect::<Vec<_>>().join(" | ")));
                                }
                            }
                        } else if runs == 0 {
                            r.error = Some("cargo miri succeeded but the workload printed no MIRI-RUN line".into());
                        }
                    }
                }
            });
        }
    });
    let mut r = res.into_inner().unwrap_or_else(std::sync::PoisonError::into_inner);
    r.failures.sort();
    r.cmds.sort();
    r.wall_s = t0.elapsed().as_secs_f64();
    r
}

/// Set while a violation found in a shipped-profile session is being reproduced and minimised:
/// every child process then runs that binary.
static EXE_OVERRIDE: std::sync::Mutex<Option<PathBuf>> = std::sync::Mutex::new(None);

fn exe() -> PathBuf {
    if let Some(p) = EXE_OVERRIDE.lock().unwrap_or_else(std::sync::PoisonError::into_inner).clone() {
        return p;
    }
    std::env::current_exe().expect("current_exe")
}

/// Runs `dsim replay` on a trace in a fresh process; true iff the violation (prop, key) shows up.
fn reproduces(tr: &Trace, prop: &str, key: &str, scratch: &Path, counter: &mut u64) -> bool {
    *counter += 1;
    let path = scratch.join(format!("cand-{}-{}.trace", std::process::id(), counter));
    if std::fs::write(&path, tr.to_text()).is_err() {
        return false;
    }
    let st = Command::new(exe()).arg("replay").arg(&path).args(["--prop", prop, "--key", key]).stdout(Stdio::null()).stderr(Stdio::null()).status();
    let _ = std::fs::remove_file(&path);
    if key.starts_with("I1:abort") {
        // the failure is the death of the process (std's unsafe-precondition check, a wild write)
        return matches!(st, Ok(s) if died(&s));
    }
    matches!(st, Ok(s) if s.code() == Some(1))
}

fn died(s: &std::process::ExitStatus) -> bool {
    use std::os::unix::process::ExitStatusExt;
    s.signal().is_some() || s.code() == Some(134)
}

/// The programmes of runs from..to as generated from their seeds, without executing them
/// (needed when executing them kills the process).
fn generate_only(prof: Profile, base: u64, from: u64, to: u64) -> Trace {
    Trace { profile: prof.name().into(), runs: (from..to).map(|i| crate::ops::generate(crate::run_seed(base, prof, i), prof, false)).collect() }
}

fn dump(prof: Profile, base: u64, from: u64, to: u64) -> Option<Trace> {
    let out = Command::new(exe())
        .args(["dump", "--profile", prof.name(), "--base", &base.to_string(), "--from", &from.to_string(), "--to", &to.to_string()])
        .stderr(Stdio::null())
        .output()
        .ok()?;
    Trace::parse(&String::from_utf8_lossy(&out.stdout)).ok()
}

fn total_ops(t: &Trace) -> usize {
    t.runs.iter().map(|r| r.pre.len() + r.threads.iter().map(Vec::len).sum::<usize>()).sum()
}

/// Greedy delta-debugging over runs, threads, operations, knobs and geometry.
fn minimise(mut best: Trace, prop: &str, key: &str, scratch: &Path) -> (Trace, u64) {
    let mut execs = 0u64;
    let t0 = Instant::now();
    let budget_ok = |execs: u64| execs < 500 && t0.elapsed().as_secs() < 90;
    let try_accept = |cand: Trace, best: &mut Trace, execs: &mut u64| -> bool {
        if cand == *best || !budget_ok(*execs) {
            return false;
        }
        // twice: a failure that shows stale heap contents can be flaky once the allocator's
        // fill pattern or the surrounding allocations are shrunk away
        if reproduces(&cand, prop, key, scratch, execs) && reproduces(&cand, prop, key, scratch, execs) {
            *best = cand;
            true
        } else {
            false
        }
    };
    // 0. a failure of the fresh-process reference: compare every conversion, not a sample
    if key.starts_with("I3:ref-process") {
        let mut c = best.clone();
        for r in &mut c.runs {
            r.knobs.iso = 99;
        }
        let _ = try_accept(c, &mut best, &mut execs);
    }
    // 1. runs of a session prefix: first the shortest suffix that still fails, then single runs
    if best.runs.len() > 1 {
        let n = best.runs.len();
        let mut k = 1;
        while k < n {
            let mut c = best.clone();
            c.runs = best.runs[n - k..].to_vec();
            if try_accept(c, &mut best, &mut execs) {
                break;
            }
            k *= 2;
        }
        let mut i = 0;
        while i + 1 < best.runs.len() && best.runs.len() <= 64 {
            let mut c = best.clone();
            c.runs.remove(i);
            if !try_accept(c, &mut best, &mut execs) {
                i += 1;
            }
        }
    }
    let mut progress = true;
    while progress && budget_ok(execs) {
        progress = false;
        for ri in 0..best.runs.len() {
            // 2. whole threads
            let mut ti = 0;
            while ti < best.runs[ri].threads.len() {
                let mut c = best.clone();
                c.runs[ri].threads.remove(ti);
                c.runs[ri].sched.clear();
                if try_accept(c, &mut best, &mut execs) {
                    progress = true;
                } else {
                    ti += 1;
                }
            }
            // 3. operations, in shrinking chunks; list 0 = pre, list k = thread k-1
            let nlists = 1 + best.runs[ri].threads.len();
            for li in 0..nlists {
                let len_of = |r: &RunTrace| if li == 0 { r.pre.len() } else { r.threads[li - 1].len() };
                let mut chunk = len_of(&best.runs[ri]).max(1);
                while chunk >= 1 {
                    let mut start = 0;
                    while start < len_of(&best.runs[ri]) {
                        let mut c = best.clone();
                        {
                            let r = &mut c.runs[ri];
                            let list = if li == 0 { &mut r.pre } else { &mut r.threads[li - 1] };
                            let end = (start + chunk).min(list.len());
                            list.drain(start..end);
                            r.sched.clear();
                        }
                        if try_accept(c, &mut best, &mut execs) {
                            progress = true;
                        } else {
                            start += chunk;
                        }
                    }
                    if chunk == 1 {
                        break;
                    }
                    chunk /= 2;
                }
            }
            // 4. knobs
            for which in 0..6 {
                let mut c = best.clone();
                let r = &mut c.runs[ri];
                match which {
                    4 => r.knobs.repeat = 1,
                    5 => {
                        if key.starts_with("I1:abort") {
                            continue; // the guard pages may be what turns the stray access into a fault
                        }
                        r.knobs.guard = 0;
                    }
                    0 => {
                        r.sched.clear();
                        r.knobs.preempt = 0;
                    }
                    1 => {
                        if key.starts_with("I3") || key.starts_with("I4") {
                            continue; // the fill pattern is what makes stale-memory reads deterministic
                        }
                        r.knobs.heap = 0;
                    }
                    2 => {
                        if key.starts_with("I3:ref-process") {
                            continue;
                        }
                        r.knobs.iso = 0;
                    }
                    _ => r.sched.clear(),
                }
                if try_accept(c, &mut best, &mut execs) {
                    progress = true;
                }
            }
            // 5. geometry and data of constructors
            let nlists = 1 + best.runs[ri].threads.len();
            for li in 0..nlists {
                let n = if li == 0 { best.runs[ri].pre.len() } else { best.runs[ri].threads[li - 1].len() };
                for oi in 0..n {
                    for variant in 0..4 {
                        let mut c = best.clone();
                        {
                            let r = &mut c.runs[ri];
                            let op = if li == 0 { &mut r.pre[oi] } else { &mut r.threads[li - 1][oi] };
                            match (op.k, variant) {
                                (Kind::NewYuv, 0) => {
                                    for i in 10..16 {
                                        op.geo[i] = 0;
                                    }
                                    op.padseed = 0;
                                }
                                (Kind::NewYuv, 1) | (Kind::NewYuv, 2) => {
                                    // halve luma width (1) or height (2), keeping chroma consistent when it was
                                    let (ss, l, c1, c2) = if variant == 1 { (op.cfg.ssx, 0, 2, 6) } else { (op.cfg.ssy, 1, 3, 7) };
                                    let m = 1u64 << ss;
                                    let old = op.geo[l];
                                    let new = ((old / 2).max(1) + m - 1) / m * m;
                                    if new >= old {
                                        continue;
                                    }
                                    for ci in [c1, c2] {
                                        if op.geo[ci] == (old >> ss).max(1) {
                                            op.geo[ci] = (new >> ss).max(1);
                                        }
                                    }
                                    op.geo[l] = new;
                                }
                                (Kind::NewYuv, 3) => op.datamode = 0,
                                (Kind::NewFloat, 1) | (Kind::NewFloat, 2) => {
                                    let exact = op.geo[0] == op.geo[1] * op.geo[2];
                                    let d = if variant == 1 { 1 } else { 2 };
                                    if op.geo[d] <= 1 {
                                        continue;
                                    }
                                    op.geo[d] = (op.geo[d] / 2).max(1);
                                    if exact {
                                        op.geo[0] = op.geo[1] * op.geo[2];
                                    }
                                }
                                (Kind::NewFloat, 3) => op.datamode = 0,
                                _ => continue,
                            }
                            r.sched.clear();
                        }
                        if try_accept(c, &mut best, &mut execs) {
                            progress = true;
                        }
                    }
                }
            }
        }
    }
    (best, execs)
}

/// A failure of the stress phase (real concurrency, found under the OS scheduler). Turn it into
/// the best replay available: (1) the same programme, Miri-sized, under Miri with many seeds - if
/// one of them fails, that (trace, Miri seed) pair replays exactly; (2) otherwise the native
/// trace, with the measured failure frequency, to be re-executed until it fails.
fn stress_replay(vdir: &Path, sim_dir: &Path, prof: Profile, prop: &str, seed: u64, first: &Viol, scratch: &Path, note: &mut String) -> PathBuf {
    let _ = std::fs::create_dir_all(vdir.join("replay"));
    let tr = generate_only(prof, seed, first.idx, first.idx + 1);
    let native = vdir.join("replay").join(format!("{prop}-seed{seed}-run{}.stress.trace", first.idx));
    let (mut fails, tries, mut execs) = (0u32, 10u32, 0u64);
    for _ in 0..tries {
        let path = scratch.join(format!("stress-{}-{}.trace", std::process::id(), execs));
        execs += 1;
        if std::fs::write(&path, tr.to_text()).is_ok() {
            let st = Command::new(exe()).arg("replay").arg(&path).args(["--prop", prop, "--attempts", "1"]).stdout(Stdio::null()).stderr(Stdio::null()).status();
            if matches!(st, Ok(s) if s.code() == Some(1)) {
                fails += 1;
            }
        }
        let _ = std::fs::remove_file(&path);
    }
    let build_line = if first.shipped { "# build=shipped\n" } else { "" };
    let header = format!(
        "# replay file for property {prop}: {} [{}]\n# {}\n{build_line}# found by the free-running stress phase (real threads, OS scheduler): this trace failed in {fails} of {tries} fresh-process re-executions.\n# re-execute: /verif/check --replay {} (repeats the trace up to 20 times until the invariant fails)\n",
        first.inv,
        first.key,
        first.msg.replace('\n', " "),
        native.display()
    );
    let _ = std::fs::write(&native, format!("{header}{}", tr.to_text()));
    note.push_str(&format!("stress-phase failure: native trace fails in {fails}/{tries} re-executions; "));
    // Miri hand-off
    let small = Trace { profile: tr.profile.clone(), runs: tr.runs.iter().map(crate::ops::miri_sized).collect() };
    let mtrace = vdir.join("replay").join(format!("{prop}-seed{seed}-run{}.miri-trace", first.idx));
    if std::fs::write(&mtrace, small.to_text()).is_err() {
        return native;
    }
    let nseeds = 32;
    let flags = format!("-Zmiri-many-seeds=0..{nseeds} -Zmiri-preemption-rate=0.05 -Zmiri-deterministic-floats -Zmiri-disable-isolation");
    let out = Command::new("cargo")
        .current_dir(sim_dir)
        .env("MIRIFLAGS", &flags)
        .env("CARGO_NET_OFFLINE", "true")
        .env("CARGO_TARGET_DIR", vdir.join("target").join("miri"))
        .args(["+nightly", "miri", "run", "--offline", "--no-default-features", "--quiet", "--", "miri", "--prop", prop, "--trace-file"])
        .arg(&mtrace)
        .output();
    if let Ok(out) = out {
        let all = format!("{}\n{}", String::from_utf8_lossy(&out.stderr), String::from_utf8_lossy(&out.stdout));
        let failing: Option<u64> = all.split("FAILING SEED:").nth(1).and_then(|r| r.trim().split_whitespace().next()).and_then(|n| n.parse().ok());
        let diag = all.lines().find(|l| l.starts_with("VIOL ") || l.contains("Undefined Behavior") || l.contains("Data race")).unwrap_or("").to_string();
        if let (false, Some(n)) = (out.status.success(), failing) {
            let path = vdir.join("replay").join(format!("{prop}-seed{seed}-run{}.miri.txt", first.idx));
            let text = format!(
                "# deterministic replay for property {prop} (scouted by the stress phase, reproduced under Miri seed {n})\n# diagnostic: {}\n# re-execute with /verif/check --replay <this file>, or directly:\ncd /verif/sim && MIRIFLAGS=\"-Zmiri-seed={n} -Zmiri-preemption-rate=0.05 -Zmiri-deterministic-floats -Zmiri-disable-isolation\" cargo +nightly miri run --offline --no-default-features -- miri --prop {prop} --trace-file {}\n# native (statistical) trace: {}\n",
                diag.chars().take(400).collect::<String>(),
                mtrace.display(),
                native.display()
            );
            let _ = std::fs::write(&path, text);
            note.push_str(&format!("reproduced deterministically under Miri (seed {n} of {nseeds})"));
            return path;
        }
    }
    note.push_str("Miri did not reproduce it within 32 seeds: the replay is statistical");
    native
}

pub fn check_main(args: &[String]) -> i32 {
    let t0 = Instant::now();
    let Some(prop) = arg_val(args, "--prop") else {
        eprintln!("check: --prop C07|C11|C12|C15");
        return 2;
    };
    let Some(prof) = Profile::for_property(&prop) else {
        eprintln!("check: property {prop} is not claimed (see MANIFEST.json not_applicable)");
        return 2;
    };
    let tier = arg_val(args, "--tier").unwrap_or_else(|| "quick".into());
    if tier != "quick" && tier != "thorough" {
        eprintln!("check: --tier quick|thorough");
        return 2;
    }
    let seed = arg_val(args, "--seed").and_then(|s| s.parse().ok()).or_else(|| std::env::var("VERIF_SEED").ok().and_then(|s| s.parse().ok())).unwrap_or(0u64);
    let jobs = arg_u64(args, "--jobs", std::thread::available_parallelism().map(|n| n.get() as u64).unwrap_or(8).min(16)).max(1);
    let vdir = PathBuf::from(arg_val(args, "--verif-dir").unwrap_or_else(|| "/verif".into()));
    let default_runs = if tier == "quick" { 24_000 } else { 1_000_000 };
    let runs = arg_u64(args, "--runs", default_runs).max(jobs);
    let with_miri = (prop == "C07" || prop == "C11" || prop == "C12") && !args.iter().any(|a| a == "--no-miri");
    // C07's Miri findings (out-of-bounds, uninitialised reads, invalid float->int) hardly depend on
    // the schedule: many workloads, few Miri seeds. C11's (races inside added code) do: fewer
    // workloads, many seeds each.
    let (dw, ds) = match (prop.as_str(), tier.as_str()) {
        ("C07", "quick") => (12, 2),
        ("C07", _) => (160, 3),
        // C12: clone / data_mut / shared-borrow races in whatever buffer sharing a change introduces
        ("C12", "quick") => (8, 6),
        ("C12", _) => (48, 12),
        (_, "quick") => (4, 8),
        _ => (40, 16),
    };
    let (miri_workloads, miri_seeds) = (arg_u64(args, "--miri-workloads", dw), arg_u64(args, "--miri-seeds", ds));
    let scratch = std::env::temp_dir();
    let sim_dir_arg = PathBuf::from(arg_val(args, "--sim-dir").unwrap_or_else(|| vdir.join("sim").to_string_lossy().into_owned()));
    println!("dsim check property={prop} tier={tier} seed={seed} profile={} runs={runs} jobs={jobs} miri={}", prof.name(), if with_miri { format!("{miri_workloads}x{miri_seeds}") } else { "off".into() });

    // stale replay files of this property from earlier runs would only confuse
    if let Ok(rd) = std::fs::read_dir(vdir.join("replay")) {
        for e in rd.flatten() {
            if e.file_name().to_string_lossy().starts_with(&format!("{prop}-")) {
                let _ = std::fs::remove_file(e.path());
            }
        }
    }

    // ---- Miri engine beside the native sessions
    let miri_handle = if with_miri {
        let (sim_dir, target) = (PathBuf::from(arg_val(args, "--sim-dir").unwrap_or_else(|| vdir.join("sim").to_string_lossy().into_owned())), vdir.join("target").join("miri"));
        let prop2 = prop.clone();
        Some(std::thread::spawn(move || run_miri(&sim_dir, &target, prof, &prop2, seed, miri_workloads, miri_seeds)))
    } else {
        None
    };

    // ---- native sessions
    let shipped_exe: Option<PathBuf> = arg_val(args, "--shipped-exe").map(PathBuf::from).filter(|p| p.exists());
    let per = (runs + jobs - 1) / jobs;
    // a session: runs from..to in one fresh process. When a process dies inside run i (a crash is
    // an I1 matter), the rest of its range continues in a new process from i+1, so that the other
    // properties' oracles still see the runs they were promised.
    let spawn_session = |from: u64, to: u64, shipped: bool| -> std::io::Result<std::thread::JoinHandle<std::io::Result<std::process::Output>>> {
        let c = Command::new(if shipped { shipped_exe.clone().unwrap_or_else(exe) } else { exe() })
            .args(["session", "--profile", prof.name(), "--base", &seed.to_string(), "--from", &from.to_string(), "--to", &to.to_string()])
            .stdout(Stdio::piped())
            .stderr(Stdio::piped())
            .spawn()?;
        Ok(std::thread::spawn(move || c.wait_with_output()))
    };
    let mut kids = std::collections::VecDeque::new();
    for j in 0..jobs {
        let (from, to) = (j * per, ((j + 1) * per).min(runs));
        if from >= to {
            break;
        }
        // every fourth session runs in the binary built with the profile users ship
        let shipped = shipped_exe.is_some() && j % 4 == 3;
        match spawn_session(from, to, shipped) {
            Ok(h) => kids.push_back((from, to, shipped, h)),
            Err(e) => {
                eprintln!("HARNESS-ERROR cannot spawn session: {e}");
                return 2;
            }
        }
    }
    let (mut restarts, max_restarts) = (0u64, 400u64);
    let mut lost_runs = 0u64;
    let mut counters: BTreeMap<String, u64> = BTreeMap::new();
    let mut classes: BTreeSet<String> = BTreeSet::new();
    let mut digests: BTreeSet<String> = BTreeSet::new();
    let mut ihashes: BTreeSet<String> = BTreeSet::new();
    let mut nontrivial_digests: BTreeSet<String> = BTreeSet::new();
    let (mut nruns, mut harness_err) = (0u64, Vec::<String>::new());
    let mut viols: Vec<Viol> = Vec::new();
    let mut sample_runs: Vec<String> = Vec::new();
    let mut shipped_sessions = 0u64;
    while let Some((from, to, shipped, h)) = kids.pop_front() {
        shipped_sessions += u64::from(shipped);
        let out = match h.join() {
            Ok(Ok(o)) => o,
            _ => {
                harness_err.push(format!("session {from}..{to} could not be collected"));
                continue;
            }
        };
        let so = String::from_utf8_lossy(&out.stdout);
        let mut ended = false;
        let mut begun: Option<u64> = None;
        for l in so.lines() {
            if l.starts_with("BEGIN ") {
                begun = kv(l, "idx").and_then(|v| v.parse().ok());
            } else if l.starts_with("RUN ") {
                begun = None;
                nruns += 1;
                let d = kv(l, "digest").unwrap_or("").to_string();
                let nt = match prof {
                    Profile::Constructors => kv(l, "ctor").map_or(false, |v| v != "0"),
                    Profile::Metadata => kv(l, "unspec").map_or(false, |v| v != "0"),
                    _ => kv(l, "conv_ok").map_or(false, |v| v != "0"),
                };
                if nt {
                    nontrivial_digests.insert(d.clone());
                }
                digests.insert(d);
                if kv(l, "threads").map_or(false, |t| t != "0" && t != "1") {
                    ihashes.insert(kv(l, "ihash").unwrap_or("").to_string());
                }
                if sample_runs.len() < 3 {
                    sample_runs.push(l.to_string());
                }
            } else if l.starts_with("VIOL ") {
                let msg = l.split_once(" msg=").map_or("", |x| x.1).to_string();
                viols.push(Viol {
                    idx: kv(l, "idx").and_then(|v| v.parse().ok()).unwrap_or(0),
                    seed: kv(l, "seed").and_then(|v| v.parse().ok()).unwrap_or(0),
                    inv: kv(l, "inv").unwrap_or("").into(),
                    props: kv(l, "props").unwrap_or("").into(),
                    key: kv(l, "key").unwrap_or("").into(),
                    msg,
                    session_from: from,
                    shipped,
                });
            } else if let Some(rest) = l.strip_prefix("COUNT ") {
                let mut it = rest.split_whitespace();
                if let (Some(k), Some(v)) = (it.next(), it.next().and_then(|v| v.parse::<u64>().ok())) {
                    *counters.entry(k.to_string()).or_default() += v;
                }
            } else if let Some(c) = l.strip_prefix("CLASS ") {
                classes.insert(c.to_string());
            } else if l.starts_with("SESSION-END") {
                ended = true;
            }
        }
        if !ended {
            let se = String::from_utf8_lossy(&out.stderr);
            // running out of memory or of mappings is the machine's (or the harness's) problem,
            // not a verdict on the library
            let oom = se.contains("memory allocation of") || se.contains("Cannot allocate memory");
            match (begun, died(&out.status) && !oom) {
                (Some(idx), true) => {
                    // the process was killed while executing run idx: a memory-safety failure in a
                    // workload that uses only the safe public API
                    let why = se.lines().find(|l| l.contains("unsafe precondition")).map(str::to_string);
                    let key = if why.is_some() { "I1:abort:unsafe-precondition" } else { "I1:abort:signal" };
                    viols.push(Viol {
                        idx,
                        seed: crate::run_seed(seed, prof, idx),
                        inv: "I1".into(),
                        props: "C07".into(),
                        key: key.into(),
                        msg: format!(
                            "the session process died ({:?}) while executing this run: {}",
                            out.status,
                            why.unwrap_or_else(|| se.lines().last().unwrap_or("no diagnostic on stderr").to_string())
                        ),
                        session_from: from,
                        shipped,
                    });
                    // the runs behind the fatal one
                    if idx + 1 < to {
                        if restarts < max_restarts {
                            restarts += 1;
                            match spawn_session(idx + 1, to, shipped) {
                                Ok(h) => kids.push_back((idx + 1, to, shipped, h)),
                                Err(e) => harness_err.push(format!("cannot respawn session {}..{to}: {e}", idx + 1)),
                            }
                        } else {
                            lost_runs += to - idx - 1;
                        }
                    }
                }
                _ => harness_err.push(format!("session {from}..{to} ended abnormally (status {:?}): {}", out.status, se.lines().last().unwrap_or(""))),
            }
        }
    }
    counters.insert("sessions_in_shipped_profile_binary".into(), shipped_sessions);
    counters.insert("sessions_restarted_after_a_crash".into(), restarts);
    if lost_runs > 0 {
        // not a verdict on this property - but not a pass either
        harness_err.push(format!("{lost_runs} of {runs} runs were not executed: session processes kept dying ({max_restarts} restarts used; see the I1 / C07 check)"));
    }
    let native_wall = t0.elapsed().as_secs_f64();
    let miri = miri_handle.map(|h| h.join().unwrap_or(MiriResult { workloads: 0, executions: 0, failures: vec![], error: Some("miri thread panicked".into()), wall_s: 0.0, cmds: vec![] }));
    if let Some(m) = &miri {
        if let Some(e) = &m.error {
            harness_err.push(format!("Miri engine: {e}"));
        }
    }
    for v in viols.iter().filter(|v| v.inv == "HARNESS") {
        harness_err.push(format!("run idx={} seed={}: {}", v.idx, v.seed, v.msg));
    }

    // ---- verdict
    let known = load_known(&vdir);
    // --only-key PREFIX (triage aid): look at one failure signature only
    let only_key = arg_val(args, "--only-key");
    let mine: Vec<&Viol> = viols
        .iter()
        .filter(|v| v.inv != "HARNESS" && v.props.split(',').any(|p| p == prop) && only_key.as_ref().map_or(true, |k| v.key.starts_with(k.as_str())))
        .collect();
    let others: BTreeSet<String> = viols.iter().filter(|v| v.inv != "HARNESS" && !v.props.split(',').any(|p| p == prop)).map(|v| format!("{}:{}", v.props, v.key)).collect();
    for o in &others {
        println!("NOTE a different property's invariant failed in this workload ({o}); its own check reports it");
    }
    let mut known_hit: BTreeMap<String, &Known> = BTreeMap::new();
    let mut fresh: Vec<&Viol> = Vec::new();
    for v in &mine {
        match known.iter().find(|k| k.prop == prop && k.key == v.key) {
            Some(k) => {
                known_hit.insert(v.key.clone(), k);
            }
            None => fresh.push(v),
        }
    }
    for (key, k) in &known_hit {
        println!("KNOWN-FINDING: property={prop} key={key} {}", k.what);
    }
    let mut replay_path: Option<PathBuf> = None;
    let mut violation_lines: Vec<String> = Vec::new();
    let mut min_note = String::new();
    if let Some(first) = fresh.iter().min_by_key(|v| (v.idx, v.key.clone())) {
        println!("violation of {prop}: {} [{}] in run idx={} seed={}{}: {}", first.inv, first.key, first.idx, first.seed, if first.shipped { " (shipped-profile binary)" } else { "" }, first.msg);
        if first.shipped {
            *EXE_OVERRIDE.lock().unwrap_or_else(std::sync::PoisonError::into_inner) = shipped_exe.clone();
        }
        let build_line = if first.shipped { "# build=shipped (found and replayed in the binary built with cargo's plain release profile: no debug assertions)\n" } else { "" };
        let _ = std::fs::create_dir_all(vdir.join("replay"));
        let mut execs = 0u64;
        // alone in a fresh process, or else as the tail of its session's history
        if first.key.starts_with("I3:stress") {
            // found by the free-running scout: look for a deterministic replay under Miri first
            let path = stress_replay(&vdir, &sim_dir_arg, prof, &prop, seed, first, &scratch, &mut min_note);
            println!("{min_note}");
            violation_lines.push(format!("VIOLATION property={prop} replay={}", path.display()));
        } else {
        let aborting = first.key.starts_with("I1:abort");
        let get = |from: u64, to: u64| if aborting { Some(generate_only(prof, seed, from, to)) } else { dump(prof, seed, from, to) };
        let alone = get(first.idx, first.idx + 1);
        let mut tr = match alone {
            Some(t) if reproduces(&t, &prop, &first.key, &scratch, &mut execs) => Some(t),
            _ => match get(first.session_from, first.idx + 1) {
                Some(t) if reproduces(&t, &prop, &first.key, &scratch, &mut execs) => {
                    min_note.push_str("needs the earlier runs of its session (process-wide history); ");
                    Some(t)
                }
                _ => None,
            },
        };
        let path = vdir.join("replay").join(format!("{prop}-seed{seed}-run{}.trace", first.idx));
        match tr.take() {
            Some(t) => {
                let before = total_ops(&t);
                let (small, n) = minimise(t, &prop, &first.key, &scratch);
                min_note.push_str(&format!("minimised {} -> {} operations, {} run(s), in {} replays", before, total_ops(&small), small.runs.len(), n + execs));
                let text = format!(
                    "# replay file for property {prop}: {} [{}]\n# {}\n{build_line}# re-execute: /verif/check --replay {} (expects the same invariant to fail)\n{}",
                    first.inv,
                    first.key,
                    first.msg.replace('\n', " "),
                    path.display(),
                    small.to_text()
                );
                let _ = std::fs::write(&path, text);
                let mut c = 0;
                if !reproduces(&small, &prop, &first.key, &scratch, &mut c) {
                    min_note.push_str("; WARNING: final replay did not reproduce");
                }
            }
            None => {
                min_note.push_str("could not be reproduced in a fresh process from the seed: the failure depends on something the simulator does not control");
                if others.iter().any(|o| o.contains("I1:")) {
                    min_note.push_str(" - memory-unsafe behaviour (an I1 failure: crash, double free, write after free) was observed in the same workload, and what a program does after that is not a function of the seed; `./check C07` reports that failure with an exact replay");
                }
                let _ = std::fs::write(&path, format!("# NOT REPRODUCED. property {prop} {} [{}] run idx={} seed={} base={seed}\n# {}\n# {}\n", first.inv, first.key, first.idx, first.seed, first.msg, min_note));
            }
        }
        println!("{min_note}");
        violation_lines.push(format!("VIOLATION property={prop} replay={}", path.display()));
        replay_path = Some(path);
        }
    }
    if let Some(m) = &miri {
        for (w, d) in &m.failures {
            let _ = std::fs::create_dir_all(vdir.join("replay"));
            let path = vdir.join("replay").join(format!("{prop}-miri-workload{w}.txt"));
            // many-seeds names the failing Miri seed; that one execution is the exact replay
            let failing: Option<u64> = d.split("FAILING SEED:").nth(1).and_then(|r| r.trim().split_whitespace().next()).and_then(|n| n.parse().ok());
            let flags = match failing {
                Some(n) => format!("-Zmiri-seed={n} -Zmiri-preemption-rate=0.05 -Zmiri-deterministic-floats"),
                None => format!("-Zmiri-many-seeds={seed}..{} -Zmiri-preemption-rate=0.05 -Zmiri-deterministic-floats", seed + miri_seeds),
            };
            let text = format!(
                "# Miri engine failure for property {prop} (workload seed {w}, Miri seed {})\n# diagnostic: {d}\n# re-execute with /verif/check --replay <this file>, or directly:\ncd /verif/sim && MIRIFLAGS=\"{flags}\" cargo +nightly miri run --offline --no-default-features -- miri --prop {prop} --profile {} --seed {w}\n",
                failing.map_or("unknown: the whole seed range is re-run".to_string(), |n| n.to_string()),
                prof.name()
            );
            let _ = std::fs::write(&path, text);
            println!("Miri engine: workload {w}: {d}");
            if violation_lines.is_empty() {
                violation_lines.push(format!("VIOLATION property={prop} replay={}", path.display()));
            }
        }
    }

    // ---- evidence
    let wall = t0.elapsed().as_secs_f64();
    let g = |k: &str| counters.get(k).copied().unwrap_or(0);
    let faults: Vec<String> = counters.iter().filter(|(k, _)| k.starts_with("fault_")).map(|(k, v)| format!("{}: {}", json_str(k.trim_start_matches("fault_")), v)).collect();
    let work: Vec<String> = counters.iter().filter(|(k, _)| !k.starts_with("fault_")).map(|(k, v)| format!("{}: {}", json_str(k), v)).collect();
    let sample_trace = dump(prof, seed, 0, 1).map(|t| t.to_text()).unwrap_or_default();
    let sample_trace: String = sample_trace.lines().take(14).collect::<Vec<_>>().join("\n");
    let rule = match prof {
        Profile::Safety => "one case = one simulated run (seeded programme of constructor/conversion/mutation operations over a shared pool, 1-4 caller threads under the baton scheduler, heap/padding/logger faults); non-trivial = at least one conversion returned Ok inside the run (so the unsafe sites were actually reached); distinct by digest of (explicit programme, executed interleaving)",
        Profile::Independence => "one case = one simulated run; non-trivial = at least one conversion returned Ok and was compared with its repetition, its fresh-thread reference from an unpadded rebuild and its 1x1 decomposition; distinct by digest of (explicit programme, executed interleaving)",
        Profile::Constructors => "one case = one simulated run; non-trivial = at least one constructor call was judged against the acceptance model; distinct by digest of (explicit programme, executed interleaving)",
        Profile::Metadata => "one case = one simulated run; non-trivial = at least one constructor or conversion was given Unspecified metadata and its resolution compared with the documented heuristic; distinct by digest of (explicit programme, executed interleaving)",
    };
    let miri_json = match &miri {
        Some(m) => format!(
            "{{\"workloads\": {}, \"executions\": {}, \"seeds_per_workload\": {}, \"failures\": {}, \"wall_s\": {:.1}, \"hooks\": \"off (Miri checks the real unsafe operations)\", \"commands\": [{}]}}",
            m.workloads,
            m.executions,
            miri_seeds,
            m.failures.len(),
            m.wall_s,
            m.cmds.iter().take(2).map(|c| json_str(c)).collect::<Vec<_>>().join(", ")
        ),
        None => "null".into(),
    };
    let nviol = fresh.len() as u64 + miri.as_ref().map_or(0, |m| m.failures.len() as u64);
    let evidence = format!(
        "{{\n \"property_id\": {},\n \"tier\": {},\n \"seed\": {},\n \"level\": \"exploration\",\n \"coverage\": {{\n  \"evaluations\": {},\n  \"distinct_nontrivial\": {},\n  \"rule\": {},\n  \"samples\": [{}, {}],\n  \"simulated_runs\": {},\n  \"operations_executed\": {},\n  \"runs_per_hour\": {},\n  \"seeds\": {},\n  \"simulated_time\": \"none: the library has no clock, timer or deadline\",\n  \"distinct_interleavings_multithreaded\": {},\n  \"distinct_programmes\": {},\n  \"distinct_operation_outcome_classes\": {},\n  \"fault_kinds_fired\": {{{}}},\n  \"work\": {{{}}},\n  \"miri_engine\": {},\n  \"components\": {{\"real\": [\"yuvxyb (built from /repo working tree, feature verif-hooks; checked profile = debug assertions + overflow checks, and for every fourth session the plain release profile users ship)\", \"yuvxyb-math\", \"v_frame\", \"aligned-vec\", \"log facade\", \"OS threads\"], \"simulated\": [\"scheduler (baton, seeded)\", \"logger backend\", \"heap contents (global allocator fill)\", \"plane padding contents\"]}},\n  \"known_findings_matched\": {},\n  \"minimisation\": {},\n  \"exhaustive\": false\n }},\n \"assumptions\": [{}],\n \"wall_s\": {:.2},\n \"violations\": {}\n}}\n",
        json_str(&prop),
        json_str(&tier),
        seed,
        nruns.max(1),
        nontrivial_digests.len().max(if nruns >= 2 { 0 } else { 0 }),
        json_str(rule),
        json_str(&sample_trace),
        json_str(&sample_runs.join(" ; ")),
        nruns,
        g("ops"),
        if native_wall > 0.0 { (nruns as f64 * 3600.0 / native_wall) as u64 } else { 0 },
        json_str(&format!("run i uses mix(mix(VERIF_SEED={seed}, profile {}), i) for i in 0..{runs}", prof.name())),
        ihashes.len(),
        digests.len(),
        classes.len(),
        faults.join(", "),
        work.join(", "),
        miri_json,
        known_hit.len(),
        json_str(&min_note),
        [
            "a clean batch is evidence, not proof: schedules, histories and fault sequences are sampled, not enumerated",
            "verif-hooks assertions sit immediately in front of the 2 unsafe blocks of src/yuv_rgb.rs and of to_int_unchecked; an unsafe operation added elsewhere is seen only by the Miri engine",
            "interleavings finer than the hook yield points (row / stage granularity) are explored only by the Miri engine",
            "reference for repeatability is the library itself in a quiescent context (fresh thread / fresh process); a deterministic wrong value is outside these properties"
        ]
        .iter()
        .map(|s| json_str(s))
        .collect::<Vec<_>>()
        .join(", "),
        wall,
        nviol
    );
    let _ = std::fs::create_dir_all(vdir.join("evidence"));
    if let Err(e) = std::fs::write(vdir.join("evidence").join(format!("{prop}.json")), evidence) {
        harness_err.push(format!("cannot write evidence: {e}"));
    }
    println!(
        "{nruns} runs, {} operations, {} distinct programmes, {} distinct multi-thread interleavings, {} op/outcome classes, {:.1}s{}",
        g("ops"),
        digests.len(),
        ihashes.len(),
        classes.len(),
        wall,
        miri.as_ref().map_or(String::new(), |m| format!("; Miri: {} executions of {} workloads in {:.0}s", m.executions, m.workloads, m.wall_s))
    );
    let _ = replay_path;
    if !violation_lines.is_empty() {
        for l in &violation_lines {
            println!("{l}");
        }
        return 1;
    }
    if !harness_err.is_empty() {
        for e in &harness_err {
            println!("HARNESS-ERROR {e}");
        }
        return 2;
    }
    println!("PASS property={prop}");
    0
}
