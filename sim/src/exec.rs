//! Executes operations against the real library, maintains the pool and its shadow model, and
//! evaluates the invariants I1–I6 of DESIGN.md §2.2.

use crate::faults::{self, LOG_MODE, LOG_PANIC};
use crate::model::*;
use crate::ops::*;
use crate::sched;
use std::panic::{catch_unwind, AssertUnwindSafe};
use std::sync::atomic::{AtomicU64, Ordering};
use std::sync::{Arc, Mutex, OnceLock};
use yuvxyb::{ConversionError, Hsl, LinearRgb, Rgb, Xyb, Yuv};

// ------------------------------------------------------------------ outcomes, violations
#[derive(Clone, Debug, PartialEq, Eq)]
pub enum PanicClass {
    /// a `verif-hooks` assertion in front of an unsafe operation fired
    Ub(String),
    /// injected by the simulated logger
    Logger,
    Other(String),
}

#[derive(Clone, Debug)]
pub enum Outcome {
    Ok(Arc<Val>),
    Err(String),
    Panic(PanicClass),
}
impl Outcome {
    pub fn class(&self) -> &'static str {
        match self {
            Outcome::Ok(_) => "ok",
            Outcome::Err(_) => "err",
            Outcome::Panic(PanicClass::Ub(_)) => "panic-ub",
            Outcome::Panic(PanicClass::Logger) => "panic-logger",
            Outcome::Panic(PanicClass::Other(_)) => "panic",
        }
    }
    /// equality for repeatability of one conversion of `input`: same value (see `vals_agree`),
    /// same error, or both panicked for the same reason class
    pub fn same(&self, o: &Outcome, input: &Val) -> bool {
        match (self, o) {
            (Outcome::Ok(a), Outcome::Ok(b)) => vals_agree(a, b, input),
            (Outcome::Err(a), Outcome::Err(b)) => a == b,
            (Outcome::Panic(PanicClass::Ub(_)), Outcome::Panic(PanicClass::Ub(_)))
            | (Outcome::Panic(PanicClass::Logger), Outcome::Panic(PanicClass::Logger))
            | (Outcome::Panic(PanicClass::Other(_)), Outcome::Panic(PanicClass::Other(_))) => true,
            _ => false,
        }
    }
    pub fn brief(&self) -> String {
        match self {
            Outcome::Ok(v) => format!("Ok({} #{:016x})", v.brief(), v.digest()),
            Outcome::Err(e) => format!("Err({e})"),
            Outcome::Panic(PanicClass::Ub(m)) => format!("Panic[UB hook]({m})"),
            Outcome::Panic(PanicClass::Logger) => "Panic[injected logger]".into(),
            Outcome::Panic(PanicClass::Other(m)) => format!("Panic({m})"),
        }
    }
    fn is_logger_panic(&self) -> bool {
        matches!(self, Outcome::Panic(PanicClass::Logger))
    }
}

#[derive(Clone, Debug)]
pub struct Violation {
    /// invariant id (I1..I6, see DESIGN.md §2.2)
    pub inv: &'static str,
    /// properties this invariant belongs to
    pub props: &'static str,
    /// stable signature used for known-finding matching and for "same failure" in minimisation
    pub key: String,
    pub msg: String,
    pub seq: u64,
    pub tid: usize,
}

pub fn panic_text(p: &(dyn std::any::Any + Send)) -> String {
    if let Some(s) = p.downcast_ref::<&str>() {
        (*s).to_string()
    } else if let Some(s) = p.downcast_ref::<String>() {
        s.clone()
    } else {
        "<non-string panic payload>".into()
    }
}
fn classify(msg: String) -> PanicClass {
    if msg.starts_with("VERIF-UB") {
        PanicClass::Ub(msg)
    } else if msg.starts_with("SIM-LOGGER-PANIC") {
        PanicClass::Logger
    } else {
        let mut m = msg;
        m.truncate(160);
        PanicClass::Other(m)
    }
}
/// "VERIF-UB unchecked index out of bounds at SITE: ..." -> SITE
fn ub_site(msg: &str) -> String {
    if let Some(rest) = msg.split(" at ").nth(1) {
        rest.split(':').take(2).collect::<Vec<_>>().join(":").split(',').next().unwrap_or("").trim().to_string()
    } else if msg.contains("to_int_unchecked") {
        "to_int_unchecked".into()
    } else {
        "unknown".into()
    }
}

// ------------------------------------------------------------------ world
#[derive(Clone)]
pub struct Entry {
    pub obj: Obj,
    /// the logical value the object must keep exposing
    pub val: Arc<Val>,
    /// full buffers and plane configs (YUV only)
    pub phys: Option<Arc<Phys>>,
}

pub struct Pending {
    pub seq: u64,
    pub tid: usize,
    pub op: Op,
    pub input: Arc<Val>,
    pub outcome: Outcome,
}

#[derive(Default)]
pub struct Stats {
    pub ops: AtomicU64,
    pub skipped: AtomicU64,
    pub conv_ok: AtomicU64,
    pub conv_err: AtomicU64,
    pub conv_panic: AtomicU64,
    pub ctor_accept: AtomicU64,
    pub ctor_reject: AtomicU64,
    pub unwinds: AtomicU64,
    pub arc_contention: AtomicU64,
    pub shared_borrow: AtomicU64,
    pub pad_filled: AtomicU64,
    pub unspecified_resolved: AtomicU64,
    pub special_floats: AtomicU64,
    pub ill_formed: AtomicU64,
    pub level_flips: AtomicU64,
    pub repeats: AtomicU64,
    pub pointwise_pixels: AtomicU64,
    pub refs_thread: AtomicU64,
    pub refs_process: AtomicU64,
    pub stress_convs: AtomicU64,
    pub clone_froms: AtomicU64,
    pub band_checks: AtomicU64,
    pub churns: AtomicU64,
    pub label_checks: AtomicU64,
    pub mutations: AtomicU64,
    pub reads: AtomicU64,
}

pub struct World {
    /// knob: repeat every conversion at once (I3a)
    pub repeat: bool,
    pub pool: Mutex<Vec<Option<Entry>>>,
    pub pending: Mutex<Vec<Pending>>,
    pub viol: Mutex<Vec<Violation>>,
    pub classes: Mutex<std::collections::BTreeSet<String>>,
    pub stats: Stats,
    pub seq: AtomicU64,
}

fn lock<T>(m: &Mutex<T>) -> std::sync::MutexGuard<'_, T> {
    m.lock().unwrap_or_else(std::sync::PoisonError::into_inner)
}

impl World {
    pub fn new(slots: usize, repeat: bool) -> Self {
        World {
            repeat,
            pool: Mutex::new(vec![None; slots]),
            pending: Mutex::new(Vec::new()),
            viol: Mutex::new(Vec::new()),
            classes: Mutex::new(Default::default()),
            stats: Stats::default(),
            seq: AtomicU64::new(0),
        }
    }
    pub fn violate(&self, inv: &'static str, props: &'static str, key: String, msg: String, seq: u64, tid: usize) {
        lock(&self.viol).push(Violation { inv, props, key, msg, seq, tid });
    }
    fn class(&self, s: String) {
        lock(&self.classes).insert(s);
    }
    fn get(&self, slot: u64) -> Option<Entry> {
        lock(&self.pool)[slot as usize].clone()
    }
    fn take(&self, slot: u64) -> Option<Entry> {
        lock(&self.pool)[slot as usize].take()
    }
    fn put(&self, slot: u64, e: Entry) {
        let old = lock(&self.pool)[slot as usize].replace(e);
        drop(old);
    }
}

// ------------------------------------------------------------------ conversions
pub enum Owned {
    Y8(Yuv<u8>),
    Y16(Yuv<u16>),
    Rgb(Rgb),
    Lin(LinearRgb),
    Xyb(Xyb),
    Hsl(Hsl),
}
fn unwrap_or_clone<T: Clone>(a: Arc<T>, contended: &mut bool) -> T {
    Arc::try_unwrap(a).unwrap_or_else(|a| {
        *contended = true;
        (*a).clone()
    })
}
fn take_owned(o: Obj, contended: &mut bool) -> Owned {
    match o {
        Obj::Y8(a) => Owned::Y8(unwrap_or_clone(a, contended)),
        Obj::Y16(a) => Owned::Y16(unwrap_or_clone(a, contended)),
        Obj::Rgb(a) => Owned::Rgb(unwrap_or_clone(a, contended)),
        Obj::Lin(a) => Owned::Lin(unwrap_or_clone(a, contended)),
        Obj::Xyb(a) => Owned::Xyb(unwrap_or_clone(a, contended)),
        Obj::Hsl(a) => Owned::Hsl(unwrap_or_clone(a, contended)),
    }
}
fn clone_owned(o: &Obj) -> Owned {
    match o {
        Obj::Y8(a) => Owned::Y8((**a).clone()),
        Obj::Y16(a) => Owned::Y16((**a).clone()),
        Obj::Rgb(a) => Owned::Rgb((**a).clone()),
        Obj::Lin(a) => Owned::Lin((**a).clone()),
        Obj::Xyb(a) => Owned::Xyb((**a).clone()),
        Obj::Hsl(a) => Owned::Hsl((**a).clone()),
    }
}
fn wrap(o: Owned) -> Obj {
    match o {
        Owned::Y8(v) => Obj::Y8(Arc::new(v)),
        Owned::Y16(v) => Obj::Y16(Arc::new(v)),
        Owned::Rgb(v) => Obj::Rgb(Arc::new(v)),
        Owned::Lin(v) => Obj::Lin(Arc::new(v)),
        Owned::Xyb(v) => Obj::Xyb(Arc::new(v)),
        Owned::Hsl(v) => Obj::Hsl(Arc::new(v)),
    }
}

pub enum Src<'a> {
    Ref(&'a Obj),
    Own(Owned),
}

/// The library call itself. `canon` is a canonical index into CONVS.
fn convert(canon: u64, src: Src<'_>, cfg: CfgI, t: u64, p: u64) -> Result<Obj, ConversionError> {
    let c = cfg.to_cfg();
    let (tc, cp) = (TRCS[t as usize], PRIS[p as usize]);
    let mism = || -> ! { panic!("harness: conversion {canon} applied to the wrong object class") };
    Ok(match (canon, src) {
        (0, Src::Ref(Obj::Y8(y))) => Obj::Rgb(Arc::new(Rgb::try_from(&**y)?)),
        (1, Src::Ref(Obj::Y16(y))) => Obj::Rgb(Arc::new(Rgb::try_from(&**y)?)),
        (2, Src::Ref(Obj::Y8(y))) => Obj::Lin(Arc::new(LinearRgb::try_from(&**y)?)),
        (3, Src::Ref(Obj::Y16(y))) => Obj::Lin(Arc::new(LinearRgb::try_from(&**y)?)),
        (4, Src::Ref(Obj::Y8(y))) => Obj::Xyb(Arc::new(Xyb::try_from(&**y)?)),
        (5, Src::Ref(Obj::Y16(y))) => Obj::Xyb(Arc::new(Xyb::try_from(&**y)?)),
        (6, Src::Ref(Obj::Rgb(r))) => Obj::Y8(Arc::new(Yuv::<u8>::try_from((&**r, c))?)),
        (7, Src::Ref(Obj::Rgb(r))) => Obj::Y16(Arc::new(Yuv::<u16>::try_from((&**r, c))?)),
        (8, Src::Own(Owned::Y8(y))) => Obj::Rgb(Arc::new(Rgb::try_from(y)?)),
        (9, Src::Own(Owned::Y16(y))) => Obj::Rgb(Arc::new(Rgb::try_from(y)?)),
        (10, Src::Own(Owned::Y8(y))) => Obj::Lin(Arc::new(LinearRgb::try_from(y)?)),
        (11, Src::Own(Owned::Y16(y))) => Obj::Lin(Arc::new(LinearRgb::try_from(y)?)),
        (12, Src::Own(Owned::Y8(y))) => Obj::Xyb(Arc::new(Xyb::try_from(y)?)),
        (13, Src::Own(Owned::Y16(y))) => Obj::Xyb(Arc::new(Xyb::try_from(y)?)),
        (14, Src::Own(Owned::Rgb(r))) => Obj::Lin(Arc::new(LinearRgb::try_from(r)?)),
        (15, Src::Own(Owned::Rgb(r))) => Obj::Xyb(Arc::new(Xyb::try_from(r)?)),
        (16, Src::Own(Owned::Rgb(r))) => Obj::Y8(Arc::new(Yuv::<u8>::try_from((r, c))?)),
        (17, Src::Own(Owned::Rgb(r))) => Obj::Y16(Arc::new(Yuv::<u16>::try_from((r, c))?)),
        (18, Src::Own(Owned::Lin(l))) => Obj::Xyb(Arc::new(Xyb::from(l))),
        (19, Src::Own(Owned::Lin(l))) => Obj::Hsl(Arc::new(Hsl::from(l))),
        (20, Src::Own(Owned::Lin(l))) => Obj::Rgb(Arc::new(Rgb::try_from((l, tc, cp))?)),
        (21, Src::Own(Owned::Lin(l))) => Obj::Y8(Arc::new(Yuv::<u8>::try_from((l, c))?)),
        (22, Src::Own(Owned::Lin(l))) => Obj::Y16(Arc::new(Yuv::<u16>::try_from((l, c))?)),
        (23, Src::Own(Owned::Xyb(x))) => Obj::Lin(Arc::new(LinearRgb::from(x))),
        (24, Src::Own(Owned::Xyb(x))) => Obj::Rgb(Arc::new(Rgb::try_from((x, tc, cp))?)),
        (25, Src::Own(Owned::Xyb(x))) => Obj::Y8(Arc::new(Yuv::<u8>::try_from((x, c))?)),
        (26, Src::Own(Owned::Xyb(x))) => Obj::Y16(Arc::new(Yuv::<u16>::try_from((x, c))?)),
        (27, Src::Own(Owned::Hsl(h))) => Obj::Lin(Arc::new(LinearRgb::from(h))),
        _ => mism(),
    })
}

/// Runs one conversion under `catch_unwind` and turns the result into an Outcome.
fn run_conv(canon: u64, src: Src<'_>, cfg: CfgI, t: u64, p: u64) -> (Outcome, Option<Obj>) {
    match catch_unwind(AssertUnwindSafe(|| convert(canon, src, cfg, t, p))) {
        Ok(Ok(o)) => {
            let v = Arc::new(o.val());
            (Outcome::Ok(v), Some(o))
        }
        Ok(Err(e)) => (Outcome::Err(format!("{e:?}")), None),
        Err(p) => (Outcome::Panic(classify(panic_text(&*p))), None),
    }
}

/// Evaluates a conversion op on a canonical rebuild of its logical input (fresh buffers, no
/// padding). Used on fresh threads after the run and in fresh processes.
pub fn ref_eval(input: &Val, op: &Op) -> Outcome {
    let canon = conv_canon(op.which);
    let cs = CONVS[canon as usize];
    let r = catch_unwind(AssertUnwindSafe(|| {
        let obj = rebuild(input);
        if cs.by_ref {
            run_conv(canon, Src::Ref(&obj), op.cfg, op.t, op.p).0
        } else {
            let mut c = false;
            run_conv(canon, Src::Own(take_owned(obj, &mut c)), op.cfg, op.t, op.p).0
        }
    }));
    match r {
        Ok(o) => o,
        Err(p) => Outcome::Panic(PanicClass::Other(format!("reference rebuild panicked: {}", panic_text(&*p)))),
    }
}

// ------------------------------------------------------------------ logger re-entrancy probe
static PROBE_EXPECT: OnceLock<u64> = OnceLock::new();
fn probe_once() -> u64 {
    let mut op = Op::blank(Kind::NewYuv);
    op.geo[..10].copy_from_slice(&[2, 2, 1, 1, 1, 1, 1, 1, 1, 1]);
    op.cfg = CfgI { bd: 8, ssx: 1, ssy: 1, full: 0, mc: 0, tc: 0, cp: 0 };
    op.dataseed = 77;
    let y = Yuv::<u8>::new(build_frame::<u8>(&op), op.cfg.to_cfg()).expect("probe frame");
    let r = Rgb::try_from(&y).expect("probe decode");
    val_of_yuv(&y).digest() ^ val_of_rgb(&r).digest().rotate_left(13)
}
pub fn init_probe() {
    let _ = PROBE_EXPECT.get_or_init(probe_once);
}
/// Called from inside the simulated logger: uses the library re-entrantly.
pub fn reentrant_probe() -> bool {
    let want = *PROBE_EXPECT.get().unwrap_or(&0);
    matches!(catch_unwind(probe_once), Ok(d) if d == want)
}

// ------------------------------------------------------------------ executing ops
pub struct Ctx<'a> {
    pub w: &'a World,
    pub tid: usize,
}

impl Ctx<'_> {
    fn seq(&self) -> u64 {
        self.w.seq.fetch_add(1, Ordering::Relaxed)
    }

    pub fn exec(&self, op: &Op) {
        sched::yield_here("op", true);
        let seq = self.seq();
        self.w.stats.ops.fetch_add(1, Ordering::Relaxed);
        let r = catch_unwind(AssertUnwindSafe(|| match op.k {
            Kind::NewYuv => self.new_yuv(op, seq),
            Kind::NewFloat => self.new_float(op, seq),
            Kind::Conv => self.conv(op, seq),
            Kind::Mutate => self.mutate(op, seq),
            Kind::CloneTo => self.clone_to(op, seq),
            Kind::DropSlot => {
                let old = self.w.take(op.slot);
                if old.is_none() {
                    self.w.stats.skipped.fetch_add(1, Ordering::Relaxed);
                }
                drop(old);
            }
            Kind::Rewrap => self.rewrap(op, seq),
            Kind::Read => self.read(op.slot, seq, "Read"),
            Kind::Logger => {
                LOG_MODE.store(op.which as u8, Ordering::Relaxed);
                if op.which as u8 == faults::LOG_DISABLED {
                    faults::LOG_DISABLED_SETS.fetch_add(1, Ordering::Relaxed);
                }
            }
            Kind::Level => {
                log::set_max_level(faults::level_of(op.which));
                self.w.stats.level_flips.fetch_add(1, Ordering::Relaxed);
            }
        }));
        if let Err(p) = r {
            // a panic that escaped the per-call catch_unwind is a harness defect, never a verdict
            self.w.violate("HARNESS", "", "harness-panic".into(), format!("executor panicked on {}: {}", op.to_line(), panic_text(&*p)), seq, self.tid);
        }
    }

    /// after any caught panic every live object must still be intact
    fn verify_pool(&self, seq: u64, why: &'static str) {
        let n = lock(&self.w.pool).len() as u64;
        for s in 0..n {
            self.read(s, seq, why);
        }
    }

    fn read(&self, slot: u64, seq: u64, why: &'static str) {
        let Some(e) = self.w.get(slot) else {
            if why == "Read" {
                self.w.stats.skipped.fetch_add(1, Ordering::Relaxed);
            }
            return;
        };
        self.w.stats.reads.fetch_add(1, Ordering::Relaxed);
        let now = e.obj.val();
        if now != *e.val {
            self.w.violate(
                "I2",
                "C11,C12",
                format!("I2:retained:{}", class_name(now.class())),
                format!("{why}: object in slot {slot} no longer exposes what it was given: was {} (#{:016x}), now {} (#{:016x})", e.val.brief(), e.val.digest(), now.brief(), now.digest()),
                seq,
                self.tid,
            );
        }
        if let (Some(was), Some(nowp)) = (&e.phys, e.obj.phys()) {
            if **was != nowp {
                self.w.violate(
                    "I2",
                    "C11,C12",
                    "I2:buffers".into(),
                    format!("{why}: plane buffers or plane configs of the Yuv in slot {slot} changed (padding included)"),
                    seq,
                    self.tid,
                );
            }
        }
    }

    fn logger_may_panic() -> bool {
        LOG_MODE.load(Ordering::Relaxed) == LOG_PANIC
    }

    // ---------------------------------------------------------------- constructors
    fn new_yuv(&self, op: &Op, seq: u64) {
        if op.which == 0 {
            self.new_yuv_t::<u8>(op, seq);
        } else {
            self.new_yuv_t::<u16>(op, seq);
        }
    }

    fn new_yuv_t<T: yuvxyb::Pixel>(&self, op: &Op, seq: u64)
    where
        Obj: FromYuv<T>,
    {
        let model = yuv_new_model(op);
        if op.padseed != 0 {
            self.w.stats.pad_filled.fetch_add(1, Ordering::Relaxed);
        }
        if model.is_err() {
            self.w.stats.ill_formed.fetch_add(1, Ordering::Relaxed);
        }
        let frame = build_frame::<T>(op);
        let unspec = cfg_has_unspecified(op.cfg);
        let res = catch_unwind(AssertUnwindSafe(|| Yuv::<T>::new(frame, op.cfg.to_cfg())));
        let tyname = class_name(op.which);
        match res {
            Err(p) => {
                self.w.stats.unwinds.fetch_add(1, Ordering::Relaxed);
                let c = classify(panic_text(&*p));
                if !(c == PanicClass::Logger && unspec) {
                    self.w.violate("I5", "C12", format!("I5:ctor-panic:{tyname}"), format!("Yuv::new panicked ({c:?}) on {}", op.to_line()), seq, self.tid);
                }
                self.w.class(format!("NewYuv/{tyname}/panic"));
                self.verify_pool(seq, "after a panic in Yuv::new");
            }
            Ok(Ok(y)) => {
                self.w.stats.ctor_accept.fetch_add(1, Ordering::Relaxed);
                self.w.class(format!("NewYuv/{tyname}/accept{}", if model.is_err() { "-illformed" } else { "" }));
                let actual = val_of_yuv(&y);
                let expect = yuv_model_val(op);
                if let Err(conds) = &model {
                    let g = &op.geo;
                    let need = |l: u64, ss: u64| (l + (1 << ss) - 1) >> ss;
                    let cannot_cover = g[2] < need(g[0], op.cfg.ssx) || g[6] < need(g[0], op.cfg.ssx) || g[3] < need(g[1], op.cfg.ssy) || g[7] < need(g[1], op.cfg.ssy);
                    self.w.violate(
                        "I5",
                        "C12",
                        format!("I5:accepted-illformed:{:?}", conds[0]),
                        format!("Yuv::new accepted an ill-formed frame (failing conditions {conds:?}): {}", op.to_line()),
                        seq,
                        self.tid,
                    );
                    if cannot_cover {
                        self.w.violate(
                            "I1",
                            "C07",
                            "I1:accepted-uncovering-chroma".into(),
                            format!("Yuv::new accepted a frame whose chroma planes cannot cover the luma plane at the declared subsampling: {}", op.to_line()),
                            seq,
                            self.tid,
                        );
                    }
                }
                if unspec {
                    self.w.stats.unspecified_resolved.fetch_add(1, Ordering::Relaxed);
                }
                if let (Val::Yuv { cfg: ca, planes: pa, .. }, Val::Yuv { cfg: ce, planes: pe, .. }) = (&actual, &expect) {
                    if ca != ce {
                        let only_meta = CfgI { mc: 0, tc: 0, cp: 0, ..*ca } == CfgI { mc: 0, tc: 0, cp: 0, ..*ce };
                        if only_meta && unspec {
                            self.w.violate(
                                "I6",
                                "C15",
                                "I6:resolution:Yuv::new".into(),
                                format!("Yuv::new resolved {:?} at {}x{} to {:?}; the documented heuristic gives {:?}", op.cfg.to_cfg(), op.geo[0], op.geo[1], ca.to_cfg(), ce.to_cfg()),
                                seq,
                                self.tid,
                            );
                        } else {
                            self.w.violate("I5", "C12", "I5:config-not-verbatim".into(), format!("Yuv::new stored config {:?}, given {:?}", ca.to_cfg(), op.cfg.to_cfg()), seq, self.tid);
                        }
                    }
                    if pa != pe {
                        self.w.violate("I5", "C12", "I5:samples-not-verbatim".into(), format!("a freshly constructed Yuv does not expose the samples/dimensions it was given: {}", op.to_line()), seq, self.tid);
                    }
                }
                // keep what the object actually exposes for config (so that one resolution defect is
                // reported once, not at every later read), the given samples for data
                let obj = Obj::from_yuv(y);
                let phys = obj.phys().map(Arc::new);
                self.w.put(op.slot, Entry { obj, val: Arc::new(actual), phys });
            }
            Ok(Err(e)) => {
                self.w.stats.ctor_reject.fetch_add(1, Ordering::Relaxed);
                let k = yuv_err_kind(e);
                self.w.class(format!("NewYuv/{tyname}/reject/{k:?}"));
                match &model {
                    Ok(()) => self.w.violate("I5", "C12", format!("I5:rejected-wellformed:{k:?}"), format!("Yuv::new rejected a well-formed frame with {e:?}: {}", op.to_line()), seq, self.tid),
                    Err(conds) => {
                        if !conds.contains(&k) && !conds.contains(&YuvErrKind::AnyVariant) {
                            self.w.violate(
                                "I5",
                                "C12",
                                format!("I5:wrong-variant:{k:?}"),
                                format!("Yuv::new reported {e:?}, but the failing conditions are {conds:?}: {}", op.to_line()),
                                seq,
                                self.tid,
                            );
                        }
                    }
                }
            }
        }
    }

    fn new_float(&self, op: &Op, seq: u64) {
        let cname = class_name(op.which);
        let bits = float_data(op);
        if op.datamode == 2 || op.datamode == 4 {
            self.w.stats.special_floats.fetch_add(1, Ordering::Relaxed);
        }
        let should_accept = op.geo[0] == op.geo[1] * op.geo[2];
        if !should_accept {
            self.w.stats.ill_formed.fetch_add(1, Ordering::Relaxed);
        }
        let unspec = op.which == CL_RGB && (op.t == 0 || op.p == 0);
        let res = catch_unwind(AssertUnwindSafe(|| {
            if op.consume == 1 {
                // the caller's vector has spare capacity (it was built by pushing)
                let mut v: Vec<[f32; 3]> = Vec::with_capacity(bits.len() + 1 + (op.dataseed >> 8) as usize % 9);
                v.extend(bits.iter().map(|b| [f32::from_bits(b[0]), f32::from_bits(b[1]), f32::from_bits(b[2])]));
                crate::model::float_obj_from_vec(op.which, v, op.geo[1] as usize, op.geo[2] as usize, op.t, op.p)
            } else {
                float_obj(op.which, &bits, op.geo[1] as usize, op.geo[2] as usize, op.t, op.p)
            }
        }));
        match res {
            Err(p) => {
                self.w.stats.unwinds.fetch_add(1, Ordering::Relaxed);
                let c = classify(panic_text(&*p));
                if !(c == PanicClass::Logger && unspec) {
                    self.w.violate("I5", "C12", format!("I5:ctor-panic:{cname}"), format!("{cname}::new panicked ({c:?}) on {}", op.to_line()), seq, self.tid);
                }
                self.w.class(format!("NewFloat/{cname}/panic"));
                self.verify_pool(seq, "after a panic in a float constructor");
            }
            Ok(Ok(o)) => {
                self.w.stats.ctor_accept.fetch_add(1, Ordering::Relaxed);
                self.w.class(format!("NewFloat/{cname}/accept"));
                if !should_accept {
                    self.w.violate("I5", "C12", format!("I5:accepted-illformed:{cname}"), format!("{cname}::new accepted len {} for {}x{}", op.geo[0], op.geo[1], op.geo[2]), seq, self.tid);
                }
                let actual = o.val();
                let expect = float_model_val(op);
                if unspec {
                    self.w.stats.unspecified_resolved.fetch_add(1, Ordering::Relaxed);
                }
                if let (Val::Flt { w: wa, h: ha, t: ta, p: pa, bits: ba, .. }, Val::Flt { w: we, h: he, t: te, p: pe, bits: be, .. }) = (&actual, &expect) {
                    if (ta, pa) != (te, pe) {
                        if unspec {
                            self.w.violate(
                                "I6",
                                "C15",
                                "I6:resolution:Rgb::new".into(),
                                format!("Rgb::new resolved ({:?},{:?}) to ({:?},{:?}); documented: ({:?},{:?})", TRCS[op.t as usize], PRIS[op.p as usize], TRCS[*ta as usize], PRIS[*pa as usize], TRCS[*te as usize], PRIS[*pe as usize]),
                                seq,
                                self.tid,
                            );
                        } else {
                            self.w.violate("I5", "C12", "I5:config-not-verbatim".into(), format!("Rgb::new changed fully specified metadata: {}", op.to_line()), seq, self.tid);
                        }
                    }
                    if should_accept && ((wa, ha) != (we, he) || ba != be) {
                        self.w.violate("I5", "C12", "I5:samples-not-verbatim".into(), format!("a freshly constructed {cname} does not expose the data/dimensions it was given: {}", op.to_line()), seq, self.tid);
                    }
                }
                self.w.put(op.slot, Entry { obj: o, val: Arc::new(actual), phys: None });
            }
            Ok(Err(e)) => {
                self.w.stats.ctor_reject.fetch_add(1, Ordering::Relaxed);
                self.w.class(format!("NewFloat/{cname}/reject"));
                if should_accept {
                    self.w.violate("I5", "C12", format!("I5:rejected-wellformed:{cname}"), format!("{cname}::new rejected len {} == {}x{} with {e:?}", op.geo[0], op.geo[1], op.geo[2]), seq, self.tid);
                }
            }
        }
    }

    // ---------------------------------------------------------------- conversions
    fn conv(&self, op: &Op, seq: u64) {
        let canon = conv_canon(op.which);
        let cs = CONVS[canon as usize];
        let consume = !cs.by_ref && op.consume != 0;
        let Some(e) = (if consume { self.w.take(op.src) } else { self.w.get(op.src) }) else {
            self.w.stats.skipped.fetch_add(1, Ordering::Relaxed);
            return;
        };
        let Entry { obj, val: src_val, phys: src_phys } = e;
        let e_val = src_val;
        // the pool holds one handle unless we consumed it; we hold one: anything beyond that is
        // another simulated thread preempted while using the same object
        let holders = obj.strong();
        if holders > if consume { 1 } else { 2 } {
            self.w.stats.shared_borrow.fetch_add(1, Ordering::Relaxed);
        }
        let mut src_obj = Some(obj);
        let (outcome, result) = if cs.by_ref {
            run_conv(canon, Src::Ref(src_obj.as_ref().expect("source")), op.cfg, op.t, op.p)
        } else {
            let mut contended = false;
            let owned = if consume { take_owned(src_obj.take().expect("source"), &mut contended) } else { clone_owned(src_obj.as_ref().expect("source")) };
            if contended {
                self.w.stats.arc_contention.fetch_add(1, Ordering::Relaxed);
            }
            run_conv(canon, Src::Own(owned), op.cfg, op.t, op.p)
        };
        match &outcome {
            Outcome::Ok(_) => self.w.stats.conv_ok.fetch_add(1, Ordering::Relaxed),
            Outcome::Err(_) => self.w.stats.conv_err.fetch_add(1, Ordering::Relaxed),
            Outcome::Panic(_) => {
                self.w.stats.unwinds.fetch_add(1, Ordering::Relaxed);
                self.w.stats.conv_panic.fetch_add(1, Ordering::Relaxed)
            }
        };
        self.w.class(format!("{}/{}", cs.name, match &outcome {
            Outcome::Err(e) => format!("err/{e}"),
            o => o.class().to_string(),
        }));

        // I1: hooks
        if let Outcome::Panic(PanicClass::Ub(m)) = &outcome {
            self.w.violate(
                "I1",
                "C07",
                format!("I1:{}", ub_site(m)),
                format!("{} on {} reached an unsafe operation with an invalid argument: {m}", cs.name, e_val.brief()),
                seq,
                self.tid,
            );
        }
        // a panic the model does not explain is recorded for I3 (the reference must panic alike);
        // injected logger panics need the logger to be in panic mode
        if outcome.is_logger_panic() && !Self::logger_may_panic() {
            // mode may have been flipped by another thread in the meantime: not a finding
        }

        // I2: the borrowed (or cloned-from) source is intact
        if let Some(src) = src_obj.as_ref() {
            let now = src.val();
            if now != *e_val {
                self.w.violate(
                    "I2",
                    "C11,C12",
                    format!("I2:source-modified:{}", cs.name),
                    format!("{} modified its source: was #{:016x}, now #{:016x} ({})", cs.name, e_val.digest(), now.digest(), now.brief()),
                    seq,
                    self.tid,
                );
            }
            if let (Some(was), Some(nowp)) = (&src_phys, src.phys()) {
                if **was != nowp {
                    self.w.violate("I2", "C11,C12", format!("I2:source-buffers:{}", cs.name), format!("{} changed its source's plane buffers/configs (padding included)", cs.name), seq, self.tid);
                }
            }
        }

        // I3a: immediate repetition on the same thread, from a fresh copy of the same logical input
        if self.w.repeat && !outcome.is_logger_panic() {
            self.w.stats.repeats.fetch_add(1, Ordering::Relaxed);
            let again = match (cs.by_ref, src_obj.as_ref()) {
                (true, Some(src)) => run_conv(canon, Src::Ref(src), op.cfg, op.t, op.p).0,
                _ => ref_eval(&e_val, op),
            };
            if !again.is_logger_panic() && !again.same(&outcome, &e_val) {
                self.w.violate(
                    "I3",
                    "C11",
                    format!("I3:repeat:{}", cs.name),
                    format!("repeating {} on {} gave a different result: first {}, then {}", cs.name, e_val.brief(), outcome.brief(), again.brief()),
                    seq,
                    self.tid,
                );
            }
        }

        if matches!(outcome, Outcome::Panic(_)) {
            self.verify_pool(seq, "after a panic in a conversion");
        }
        if let (Outcome::Ok(v), Some(obj)) = (&outcome, result) {
            let phys = obj.phys().map(Arc::new);
            self.w.put(op.slot, Entry { obj, val: Arc::clone(v), phys });
        }
        lock(&self.w.pending).push(Pending { seq, tid: self.tid, op: op.clone(), input: e_val, outcome });
    }

    // ---------------------------------------------------------------- mutation, clone, rewrap
    fn mutate(&self, op: &Op, seq: u64) {
        let Some(e) = self.w.take(op.slot) else {
            self.w.stats.skipped.fetch_add(1, Ordering::Relaxed);
            return;
        };
        let mut contended = false;
        let mut owned = take_owned(e.obj, &mut contended);
        if contended {
            self.w.stats.arc_contention.fetch_add(1, Ordering::Relaxed);
        }
        let Val::Flt { class, w, h, t, p, bits } = &*e.val else { return };
        let mut bits = bits.clone();
        {
            let data: &mut [[f32; 3]] = match &mut owned {
                Owned::Rgb(r) => r.data_mut(),
                Owned::Lin(r) => r.data_mut(),
                Owned::Xyb(r) => r.data_mut(),
                Owned::Hsl(r) => r.data_mut(),
                _ => return,
            };
            if !data.is_empty() {
                for i in 0..op.which {
                    let idx = (crate::rng::mix(op.dataseed, 1000 + i) % data.len() as u64) as usize;
                    let px = float_pixel(op.dataseed, op.datamode, i);
                    data[idx] = [f32::from_bits(px[0]), f32::from_bits(px[1]), f32::from_bits(px[2])];
                    if idx < bits.len() {
                        bits[idx] = canon_px(px);
                    }
                }
            }
        }
        self.w.stats.mutations.fetch_add(1, Ordering::Relaxed);
        let model = Val::Flt { class: *class, w: *w, h: *h, t: *t, p: *p, bits };
        let obj = wrap(owned);
        let now = obj.val();
        if now != model {
            self.w.violate("I5", "C12", format!("I5:mutation:{}", class_name(*class)), format!("after data_mut writes the {} in slot {} does not expose the written data", class_name(*class), op.slot), seq, self.tid);
        }
        self.w.put(op.slot, Entry { obj, val: Arc::new(model), phys: None });
    }

    fn clone_to(&self, op: &Op, seq: u64) {
        let Some(e) = self.w.get(op.src) else {
            self.w.stats.skipped.fetch_add(1, Ordering::Relaxed);
            return;
        };
        // `consume` = 1: `dst.clone_from(&src)` into the object the destination slot holds (if it
        // holds one of its own: cloning a slot onto itself stays a plain clone)
        let into = if op.consume != 0 && op.src != op.slot { self.w.take(op.slot) } else { None };
        let obj = match into {
            Some(d) => {
                let mut contended = false;
                let mut dst = take_owned(d.obj, &mut contended);
                match (&mut dst, &e.obj) {
                    (Owned::Y8(a), Obj::Y8(b)) => a.clone_from(b),
                    (Owned::Y16(a), Obj::Y16(b)) => a.clone_from(b),
                    (Owned::Rgb(a), Obj::Rgb(b)) => a.clone_from(b),
                    (Owned::Lin(a), Obj::Lin(b)) => a.clone_from(b),
                    (Owned::Xyb(a), Obj::Xyb(b)) => a.clone_from(b),
                    (Owned::Hsl(a), Obj::Hsl(b)) => a.clone_from(b),
                    _ => dst = clone_owned(&e.obj),
                }
                self.w.stats.clone_froms.fetch_add(1, Ordering::Relaxed);
                wrap(dst)
            }
            None => wrap(clone_owned(&e.obj)),
        };
        let now = obj.val();
        if now != *e.val {
            self.w.violate(
                "I5",
                "C12",
                format!("I5:clone:{}", class_name(now.class())),
                format!("a clone{} of the object in slot {} exposes {} instead of {}", if op.consume != 0 { " (clone_from)" } else { "" }, op.src, now.brief(), e.val.brief()),
                seq,
                self.tid,
            );
        }
        let phys = obj.phys().map(Arc::new);
        self.w.put(op.slot, Entry { obj, val: Arc::clone(&e.val), phys });
    }

    fn rewrap(&self, op: &Op, seq: u64) {
        let Some(e) = self.w.take(op.slot) else {
            self.w.stats.skipped.fetch_add(1, Ordering::Relaxed);
            return;
        };
        let mut contended = false;
        let owned = take_owned(e.obj, &mut contended);
        let Val::Flt { class, w, h, t, p, .. } = &*e.val else { return };
        let data = match owned {
            Owned::Rgb(r) => r.into_data(),
            Owned::Lin(r) => r.into_data(),
            Owned::Xyb(r) => r.into_data(),
            Owned::Hsl(r) => r.into_data(),
            _ => return,
        };
        // the vector itself goes back in: its allocation is now owned by the new image alone
        let res = catch_unwind(AssertUnwindSafe(|| float_obj_from_vec(*class, data, *w, *h, *t, *p)));
        match res {
            Ok(Ok(obj)) => {
                if obj.val() != *e.val {
                    self.w.violate("I5", "C12", format!("I5:rewrap:{}", class_name(*class)), "into_data() + new() does not reproduce the image".into(), seq, self.tid);
                }
                // after an ownership hand-over, provoke reuse of same-sized storage through the
                // library: whoever still believes it owns that buffer will scribble on it now
                if op.dataseed % 2 == 0 && *w > 0 && *h > 0 && *w * *h <= 4096 {
                    let _ = catch_unwind(AssertUnwindSafe(|| churn_same_size(*w, *h, op.dataseed)));
                    self.w.stats.churns.fetch_add(1, Ordering::Relaxed);
                    if obj.val() != *e.val {
                        self.w.violate(
                            "I2",
                            "C11,C12",
                            format!("I2:retained-after-churn:{}", class_name(*class)),
                            format!("an image re-wrapped from into_data() changed its samples when other images of the same size were converted right afterwards (slot {})", op.slot),
                            seq,
                            self.tid,
                        );
                    }
                }
                self.w.put(op.slot, Entry { obj, val: e.val, phys: None });
            }
            Ok(Err(err)) => self.w.violate("I5", "C12", format!("I5:rewrap-rejected:{}", class_name(*class)), format!("into_data() of an accepted image was rejected by new(): {err:?}"), seq, self.tid),
            Err(_) => {}
        }
    }
}

/// A decode and an encode of an unrelated w x h image (8-bit 4:4:4 BT.709): two library calls that
/// need w*h-pixel working storage.
fn churn_same_size(w: usize, h: usize, seed: u64) {
    let mut op = Op::blank(Kind::NewYuv);
    op.geo[..10].copy_from_slice(&[w as u64, h as u64, w as u64, h as u64, 0, 0, w as u64, h as u64, 0, 0]);
    op.cfg = CfgI { bd: 8, ssx: 0, ssy: 0, full: 0, mc: 1, tc: 1, cp: 1 };
    op.dataseed = seed ^ 0xc4u64;
    op.datamode = 1;
    if let Ok(y) = Yuv::<u8>::new(build_frame::<u8>(&op), op.cfg.to_cfg()) {
        if let Ok(rgb) = Rgb::try_from(&y) {
            let _ = Yuv::<u8>::try_from((&rgb, op.cfg.to_cfg()));
            let _ = LinearRgb::try_from(rgb);
        }
    }
}

/// helper: conversions between generic `Yuv<T>` and `Obj`
pub trait FromYuv<T: yuvxyb::Pixel> {
    fn from_yuv(y: Yuv<T>) -> Obj;
}
impl FromYuv<u8> for Obj {
    fn from_yuv(y: Yuv<u8>) -> Obj {
        Obj::Y8(Arc::new(y))
    }
}
impl FromYuv<u16> for Obj {
    fn from_yuv(y: Yuv<u16>) -> Obj {
        Obj::Y16(Arc::new(y))
    }
}
impl Obj {
    fn strong(&self) -> usize {
        match self {
            Obj::Y8(a) => Arc::strong_count(a),
            Obj::Y16(a) => Arc::strong_count(a),
            Obj::Rgb(a) => Arc::strong_count(a),
            Obj::Lin(a) => Arc::strong_count(a),
            Obj::Xyb(a) => Arc::strong_count(a),
            Obj::Hsl(a) => Arc::strong_count(a),
        }
    }
}

// ------------------------------------------------------------------ after the run: I3b, I4, I6b
fn sample_pixels(w: usize, h: usize, seed: u64) -> Vec<(usize, usize)> {
    if w == 0 || h == 0 {
        return Vec::new();
    }
    if w * h <= 20 {
        return (0..h).flat_map(|y| (0..w).map(move |x| (x, y))).collect();
    }
    let mut v = vec![(0, 0), (w - 1, 0), (0, h - 1), (w - 1, h - 1), (w / 2, h / 2)];
    for i in 0..9u64 {
        let r = crate::rng::mix(seed, i);
        v.push(((r % w as u64) as usize, ((r >> 32) % h as u64) as usize));
    }
    v
}

fn one_pixel_input(input: &Val, x: usize, y: usize) -> Option<Val> {
    Some(match input {
        Val::Yuv { ty, cfg, planes } => {
            let (cx, cy) = (x >> cfg.ssx, y >> cfg.ssy);
            if cx >= planes[1].w || cy >= planes[1].h || cx >= planes[2].w || cy >= planes[2].h {
                return None;
            }
            let one = |s: u16| PlaneVal { w: 1, h: 1, xdec: 0, ydec: 0, s: vec![s] };
            Val::Yuv {
                ty: *ty,
                cfg: CfgI { ssx: 0, ssy: 0, ..*cfg },
                planes: [one(planes[0].s[y * planes[0].w + x]), one(planes[1].s[cy * planes[1].w + cx]), one(planes[2].s[cy * planes[2].w + cx])],
            }
        }
        Val::Flt { class, w, t, p, bits, .. } => Val::Flt { class: *class, w: 1, h: 1, t: *t, p: *p, bits: vec![bits[y * w + x]] },
    })
}

/// Rows r0..r1 of a logical image as an image of its own (r0, r1 multiples of the vertical
/// subsampling for YUV).
fn row_band(v: &Val, r0: usize, r1: usize) -> Val {
    match v {
        Val::Flt { class, w, t, p, bits, .. } => Val::Flt { class: *class, w: *w, h: r1 - r0, t: *t, p: *p, bits: bits[r0 * w..r1 * w].to_vec() },
        Val::Yuv { ty, cfg, planes } => {
            let cut = |pv: &PlaneVal, ss: usize| PlaneVal { w: pv.w, h: (r1 >> ss) - (r0 >> ss), xdec: pv.xdec, ydec: pv.ydec, s: pv.s[(r0 >> ss) * pv.w..(r1 >> ss) * pv.w].to_vec() };
            let ss = cfg.ssy as usize;
            Val::Yuv { ty: *ty, cfg: *cfg, planes: [cut(&planes[0], 0), cut(&planes[1], ss), cut(&planes[2], ss)] }
        }
    }
}
/// Two results stacked vertically (the inverse of `row_band` on the output side).
fn stack_rows(a: &Val, b: &Val) -> Option<Val> {
    match (a, b) {
        (Val::Flt { class, w, h, t, p, bits }, Val::Flt { class: c2, w: w2, h: h2, t: t2, p: p2, bits: b2 }) if (class, w, t, p) == (c2, w2, t2, p2) => {
            let mut all = bits.clone();
            all.extend_from_slice(b2);
            Some(Val::Flt { class: *class, w: *w, h: h + h2, t: *t, p: *p, bits: all })
        }
        (Val::Yuv { ty, cfg, planes }, Val::Yuv { ty: ty2, cfg: cfg2, planes: p2 }) if ty == ty2 && cfg == cfg2 => {
            let join = |x: &PlaneVal, y: &PlaneVal| -> Option<PlaneVal> {
                if (x.w, x.xdec, x.ydec) != (y.w, y.xdec, y.ydec) {
                    return None;
                }
                let mut s = x.s.clone();
                s.extend_from_slice(&y.s);
                Some(PlaneVal { w: x.w, h: x.h + y.h, xdec: x.xdec, ydec: x.ydec, s })
            };
            Some(Val::Yuv { ty: *ty, cfg: *cfg, planes: [join(&planes[0], &p2[0])?, join(&planes[1], &p2[1])?, join(&planes[2], &p2[2])?] })
        }
        _ => None,
    }
}

/// Columns c0..c1 of a logical image as an image of its own (multiples of the horizontal
/// subsampling for YUV).
fn col_band(v: &Val, c0: usize, c1: usize) -> Val {
    let cut = |s: &[u16], w: usize, h: usize, a: usize, b: usize| -> Vec<u16> { (0..h).flat_map(|y| s[y * w + a..y * w + b].to_vec()).collect() };
    match v {
        Val::Flt { class, w, h, t, p, bits } => {
            Val::Flt { class: *class, w: c1 - c0, h: *h, t: *t, p: *p, bits: (0..*h).flat_map(|y| bits[y * w + c0..y * w + c1].to_vec()).collect() }
        }
        Val::Yuv { ty, cfg, planes } => {
            let ss = cfg.ssx as usize;
            let pl = |pv: &PlaneVal, ss: usize| PlaneVal { w: (c1 >> ss) - (c0 >> ss), h: pv.h, xdec: pv.xdec, ydec: pv.ydec, s: cut(&pv.s, pv.w, pv.h, c0 >> ss, c1 >> ss) };
            Val::Yuv { ty: *ty, cfg: *cfg, planes: [pl(&planes[0], 0), pl(&planes[1], ss), pl(&planes[2], ss)] }
        }
    }
}
/// Two results side by side (the inverse of `col_band` on the output side).
fn stack_cols(a: &Val, b: &Val) -> Option<Val> {
    match (a, b) {
        (Val::Flt { class, w, h, t, p, bits }, Val::Flt { class: c2, w: w2, h: h2, t: t2, p: p2, bits: b2 }) if (class, h, t, p) == (c2, h2, t2, p2) => {
            let mut all = Vec::with_capacity(bits.len() + b2.len());
            for y in 0..*h {
                all.extend_from_slice(&bits[y * w..(y + 1) * w]);
                all.extend_from_slice(&b2[y * w2..(y + 1) * w2]);
            }
            Some(Val::Flt { class: *class, w: w + w2, h: *h, t: *t, p: *p, bits: all })
        }
        (Val::Yuv { ty, cfg, planes }, Val::Yuv { ty: ty2, cfg: cfg2, planes: p2 }) if ty == ty2 && cfg == cfg2 => {
            let join = |x: &PlaneVal, y: &PlaneVal| -> Option<PlaneVal> {
                if (x.h, x.xdec, x.ydec) != (y.h, y.xdec, y.ydec) {
                    return None;
                }
                let mut s = Vec::with_capacity(x.s.len() + y.s.len());
                for r in 0..x.h {
                    s.extend_from_slice(&x.s[r * x.w..(r + 1) * x.w]);
                    s.extend_from_slice(&y.s[r * y.w..(r + 1) * y.w]);
                }
                Some(PlaneVal { w: x.w + y.w, h: x.h, xdec: x.xdec, ydec: x.ydec, s })
            };
            Some(Val::Yuv { ty: *ty, cfg: *cfg, planes: [join(&planes[0], &p2[0])?, join(&planes[1], &p2[1])?, join(&planes[2], &p2[2])?] })
        }
        _ => None,
    }
}

fn luma_agrees(a: &Val, b: &Val, input: &Val) -> bool {
    match (a, b) {
        (Val::Yuv { ty, cfg, planes }, Val::Yuv { ty: t2, cfg: c2, planes: p2 }) => {
            let only_luma = |p: &[PlaneVal; 3]| -> [PlaneVal; 3] {
                let blank = |pv: &PlaneVal| PlaneVal { w: pv.w, h: pv.h, xdec: pv.xdec, ydec: pv.ydec, s: vec![0; pv.s.len()] };
                [p[0].clone(), blank(&p[1]), blank(&p[2])]
            };
            vals_agree(&Val::Yuv { ty: *ty, cfg: *cfg, planes: only_luma(planes) }, &Val::Yuv { ty: *t2, cfg: *c2, planes: only_luma(p2) }, input)
        }
        _ => false,
    }
}

/// I4b (C11): a conversion of the whole image equals the conversions of two horizontal bands of
/// it, stacked. For images too large to decompose pixel by pixel this is what "output pixel i
/// depends only on input pixel i" can still be held against: every pixel is compared, and a
/// defect tied to a position in the buffer (a block boundary, a chunk tail) moves with the band.
pub fn band_check(input: &Val, op: &Op, out: &Val, stats: &Stats) -> Option<(String, String)> {
    let canon = conv_canon(op.which);
    let cs = CONVS[canon as usize];
    let (w, h) = input.dims();
    if w * h <= 20 || (cs.needs_cfg && cfg_has_unspecified(op.cfg)) {
        return None; // small images are decomposed completely; Unspecified resolution depends on the size
    }
    let (ssy_in, ssx_in) = match input {
        Val::Yuv { cfg, .. } => (cfg.ssy as usize, cfg.ssx as usize),
        Val::Flt { .. } => (0, 0),
    };
    let (ssy_out, ssx_out) = if cs.needs_cfg { (op.cfg.ssy as usize, op.cfg.ssx as usize) } else { (0, 0) };
    let (unit_y, unit_x) = (1usize << ssy_in.max(ssy_out), 1usize << ssx_in.max(ssx_out));
    let rows_ok = h >= 2 * unit_y && h % unit_y == 0;
    let cols_ok = w >= 2 * unit_x && w % unit_x == 0;
    // cut between rows or between columns (a one-row image can only be cut between columns; an
    // error tied to the column position survives a row cut)
    let pick = crate::rng::mix(op.dataseed ^ 0x3333, (w * h) as u64);
    let by_rows = match (rows_ok, cols_ok) {
        (true, true) => pick % 3 != 0,
        (true, false) => true,
        (false, true) => false,
        (false, false) => return None,
    };
    let (len, unit) = if by_rows { (h, unit_y) } else { (w, unit_x) };
    let cuts = len / unit - 1;
    let r = unit * (1 + ((pick >> 8) % cuts as u64) as usize);
    let (first, second) = if by_rows { (row_band(input, 0, r), row_band(input, r, h)) } else { (col_band(input, 0, r), col_band(input, r, w)) };
    stats.band_checks.fetch_add(1, Ordering::Relaxed);
    let (a, b) = (ref_eval(&first, op), ref_eval(&second, op));
    let what = if by_rows { "rows" } else { "columns" };
    let fail = |k: &str, m: String| Some((format!("I4:{k}:{}", cs.name), m));
    match (&a, &b) {
        (Outcome::Ok(va), Outcome::Ok(vb)) => match if by_rows { stack_rows(va, vb) } else { stack_cols(va, vb) } {
            // a subsampled encode may take a block's chroma from any pixel of the block (the
            // property says so, and the pinned code's choice does depend on the image width):
            // only the luma plane has to agree there
            Some(st) if cs.needs_cfg && (op.cfg.ssx > 0 || op.cfg.ssy > 0) && luma_agrees(out, &st, input) => None,
            Some(st) if vals_agree(out, &st, input) => None,
            Some(_) => fail("bands", format!("{}: the {w}x{h} image converted whole differs from its {what} 0..{r} and {r}..{len} converted separately and put together", cs.name)),
            None => fail("bands-shape", format!("{}: the two bands of the {w}x{h} image ({what} cut at {r}) convert to results that do not fit together", cs.name)),
        },
        _ => fail("bands-outcome", format!("{}: the whole {w}x{h} image converts, its bands ({what} cut at {r}) give {} and {}", cs.name, a.brief(), b.brief())),
    }
}

/// I4 (C11): dimensions, pointwise, subsampling relations. Returns (key, message) of the first failure.
pub fn pointwise_check(input: &Val, op: &Op, out: &Val, stats: &Stats) -> Option<(String, String)> {
    let canon = conv_canon(op.which);
    let cs = CONVS[canon as usize];
    let (w, h) = input.dims();
    let mask = special_mask(input);
    let special_at = |x: usize, y: usize| mask.as_ref().map_or(false, |m| m.get(y * w + x).copied().unwrap_or(true));
    let fail = |k: &str, m: String| Some((format!("I4:{k}:{}", cs.name), m));
    match out {
        Val::Flt { w: ow, h: oh, bits, .. } => {
            if (*ow, *oh) != (w, h) || bits.len() != w * h {
                return fail("dims", format!("{} changed dimensions {}x{} -> {}x{} (len {})", cs.name, w, h, ow, oh, bits.len()));
            }
            for (x, y) in sample_pixels(w, h, op.dataseed ^ 0x1111) {
                if mask.as_ref().map_or(false, |m| m[y * w + x]) {
                    continue;
                }
                let Some(one) = one_pixel_input(input, x, y) else { continue };
                stats.pointwise_pixels.fetch_add(1, Ordering::Relaxed);
                match ref_eval(&one, op) {
                    Outcome::Ok(v) => {
                        if let Val::Flt { bits: b1, .. } = &*v {
                            if b1.len() != 1 || !(0..3).all(|c| b1[0][c] == bits[y * w + x][c] || (f32::from_bits(b1[0][c]).is_nan() && f32::from_bits(bits[y * w + x][c]).is_nan())) {
                                return fail(
                                    "pointwise",
                                    format!("{}: output pixel ({x},{y}) of the {w}x{h} image is {:08x?}, the same input pixel converted as a 1x1 image gives {:08x?}", cs.name, bits[y * w + x], b1.first()),
                                );
                            }
                        }
                    }
                    o => return fail("pointwise-outcome", format!("{}: whole image converts, its pixel ({x},{y}) as a 1x1 image gives {}", cs.name, o.brief())),
                }
            }
        }
        Val::Yuv { cfg: oc, planes, .. } => {
            let (ssx, ssy) = (op.cfg.ssx as usize, op.cfg.ssy as usize);
            let want = [(w, h, 0, 0), (w >> ssx, h >> ssy, ssx, ssy), (w >> ssx, h >> ssy, ssx, ssy)];
            for (i, p) in planes.iter().enumerate() {
                if (p.w, p.h, p.xdec, p.ydec) != want[i] {
                    return fail("plane-dims", format!("{}: plane {i} is {}x{} dec ({},{}), expected {}x{} dec ({},{})", cs.name, p.w, p.h, p.xdec, p.ydec, want[i].0, want[i].1, want[i].2, want[i].3));
                }
            }
            if cfg_has_unspecified(op.cfg) {
                return None; // resolution depends on the image size: C15's business (I6)
            }
            // reference 4:4:4 encode with the same (fully specified) config
            let mut op444 = op.clone();
            op444.cfg = CfgI { ssx: 0, ssy: 0, ..*oc };
            let full = if ssx == 0 && ssy == 0 {
                None
            } else {
                match ref_eval(input, &op444) {
                    Outcome::Ok(v) => Some(v),
                    o => return fail("444-outcome", format!("{}: subsampled encode succeeds but the 4:4:4 encode of the same image gives {}", cs.name, o.brief())),
                }
            };
            let p444: &[PlaneVal; 3] = match &full {
                Some(v) => match &**v {
                    Val::Yuv { planes, .. } => planes,
                    Val::Flt { .. } => return None,
                },
                None => planes,
            };
            if full.is_some() {
                if (0..h).any(|y| (0..w).any(|x| !special_at(x, y) && p444[0].s[y * w + x] != planes[0].s[y * w + x])) {
                    return fail("luma-444", format!("{}: luma plane of the subsampled encode differs from the 4:4:4 luma plane", cs.name));
                }
                for pl in 1..3 {
                    for cy in 0..planes[pl].h {
                        for cx in 0..planes[pl].w {
                            let got = planes[pl].s[cy * planes[pl].w + cx];
                            let mut found = false;
                            for y in (cy << ssy)..(((cy + 1) << ssy).min(h)) {
                                for x in (cx << ssx)..(((cx + 1) << ssx).min(w)) {
                                    found |= p444[pl].s[y * w + x] == got || special_at(x, y);
                                }
                            }
                            if !found {
                                return fail("chroma-block", format!("{}: chroma sample ({cx},{cy}) of plane {pl} = {got} equals the 4:4:4 chroma of no pixel of its block", cs.name));
                            }
                        }
                    }
                }
            }
            for (x, y) in sample_pixels(w, h, op.dataseed ^ 0x2222) {
                if special_at(x, y) {
                    continue;
                }
                let Some(one) = one_pixel_input(input, x, y) else { continue };
                stats.pointwise_pixels.fetch_add(1, Ordering::Relaxed);
                match ref_eval(&one, &op444) {
                    Outcome::Ok(v) => {
                        if let Val::Yuv { planes: p1, .. } = &*v {
                            let a = [p1[0].s[0], p1[1].s[0], p1[2].s[0]];
                            let b = [p444[0].s[y * w + x], p444[1].s[y * w + x], p444[2].s[y * w + x]];
                            if a != b {
                                return fail("pointwise", format!("{}: 4:4:4 codes at ({x},{y}) of the {w}x{h} image are {b:?}, the same pixel encoded as a 1x1 image gives {a:?}", cs.name));
                            }
                        }
                    }
                    o => return fail("pointwise-outcome", format!("{}: whole image encodes, its pixel ({x},{y}) as a 1x1 image gives {}", cs.name, o.brief())),
                }
            }
        }
    }
    None
}

fn unit_cube(v: &Val) -> bool {
    match v {
        Val::Flt { class, bits, .. } if *class == CL_LIN => bits.iter().all(|p| p.iter().all(|b| {
            let f = f32::from_bits(*b);
            f.is_finite() && (0.0..=1.0).contains(&f)
        })),
        _ => false,
    }
}

/// I6 second clause (C15): a conversion that was given Unspecified fields and succeeded stored a
/// config that describes the encoding actually applied.
pub fn label_check(input: &Val, op: &Op, out: &Val, stats: &Stats) -> Option<(String, String)> {
    let canon = conv_canon(op.which);
    let cs = CONVS[canon as usize];
    let given_unspec = (cs.needs_cfg && cfg_has_unspecified(op.cfg)) || (cs.needs_tp && (op.t == 0 || op.p == 0));
    if !given_unspec {
        return None;
    }
    let (w, h) = input.dims();
    match out {
        Val::Yuv { cfg: stored, planes, .. } => {
            if cfg_has_unspecified(*stored) {
                return Some((format!("I6:unspecified-in-output:{}", cs.name), format!("{} returned a Yuv that still reports Unspecified metadata: {:?}", cs.name, stored.to_cfg())));
            }
            let want = resolve_yuv_cfg(op.cfg, w, h);
            if *stored != want {
                return Some((
                    format!("I6:resolution:{}", cs.name),
                    format!("{} given {:?} at {w}x{h} stored {:?}; the documented heuristic gives {:?}", cs.name, op.cfg.to_cfg(), stored.to_cfg(), want.to_cfg()),
                ));
            }
            // in-gamut linear input only (C09's budget is stated for those); ST 428 excluded there too
            if !unit_cube(input) || PRIS[stored.cp as usize] == yuvxyb::ColorPrimaries::ST428 {
                return None;
            }
            stats.label_checks.fetch_add(1, Ordering::Relaxed);
            let mut op2 = op.clone();
            op2.cfg = *stored;
            let Outcome::Ok(v2) = ref_eval(input, &op2) else {
                return Some((format!("I6:label-outcome:{}", cs.name), format!("{} succeeds with Unspecified fields but fails with the config it stored ({:?})", cs.name, stored.to_cfg())));
            };
            let Val::Yuv { planes: p2, .. } = &*v2 else { return None };
            let budget = ((0.015 * ((1u32 << stored.bd) - 1) as f64).floor() as i64).max(1);
            for pl in 0..3 {
                for (i, (a, b)) in planes[pl].s.iter().zip(p2[pl].s.iter()).enumerate() {
                    if (i64::from(*a) - i64::from(*b)).abs() > budget {
                        return Some((
                            format!("I6:label-mismatch:{}", cs.name),
                            format!(
                                "{} given {:?} stored {:?}, but encoding the same image with that stored config gives plane {pl} sample {i} = {b} instead of {a} (budget {budget}): the label does not describe the encoding applied",
                                cs.name,
                                op.cfg.to_cfg(),
                                stored.to_cfg()
                            ),
                        ));
                    }
                }
            }
        }
        Val::Flt { class, t, p, bits, .. } if *class == CL_RGB => {
            if *t == 0 || *p == 0 {
                return Some((format!("I6:unspecified-in-output:{}", cs.name), format!("{} returned an Rgb that still reports Unspecified metadata", cs.name)));
            }
            let want = resolve_rgb_tp(op.t, op.p);
            if (*t, *p) != want {
                return Some((format!("I6:resolution:{}", cs.name), format!("{} given ({:?},{:?}) stored ({:?},{:?}); documented ({:?},{:?})", cs.name, TRCS[op.t as usize], PRIS[op.p as usize], TRCS[*t as usize], PRIS[*p as usize], TRCS[want.0 as usize], PRIS[want.1 as usize])));
            }
            if !unit_cube(input) {
                return None;
            }
            stats.label_checks.fetch_add(1, Ordering::Relaxed);
            let mut op2 = op.clone();
            op2.t = *t;
            op2.p = *p;
            let Outcome::Ok(v2) = ref_eval(input, &op2) else {
                return Some((format!("I6:label-outcome:{}", cs.name), format!("{} succeeds with Unspecified fields but fails with the metadata it stored", cs.name)));
            };
            let Val::Flt { bits: b2, .. } = &*v2 else { return None };
            for (i, (a, b)) in bits.iter().zip(b2.iter()).enumerate() {
                for c in 0..3 {
                    let (fa, fb) = (f32::from_bits(a[c]), f32::from_bits(b[c]));
                    if fa.is_finite() && fb.is_finite() && (fa - fb).abs() > 0.015 {
                        return Some((format!("I6:label-mismatch:{}", cs.name), format!("{}: pixel {i} component {c} is {fa} but encoding with the stored metadata gives {fb}", cs.name)));
                    }
                }
            }
        }
        Val::Flt { .. } => {}
    }
    None
}
