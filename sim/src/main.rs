//! dsim — deterministic simulator for rust-av/yuvxyb (see /verif/DESIGN.md).
//!
//!   dsim check   --prop C07|C11|C12|C15 --tier quick|thorough   (driver; what ./check runs)
//!   dsim session --profile P --base S --from A --to B           (one process, runs A..B in order)
//!   dsim dump    --profile P --base S --from A --to B           (same, writes the explicit trace)
//!   dsim replay  FILE [--prop ID] [--key KEY]                   (re-executes a trace file)
//!   dsim evalone FILE                                           (fresh-process reference)
//!   dsim miri    --profile P --seed S                           (workload for the Miri engine)

mod driver;
mod exec;
mod faults;
mod model;
mod ops;
mod rng;
mod run;
mod sched;

#[cfg(not(miri))]
#[global_allocator]
static ALLOC: faults::FillAlloc = faults::FillAlloc;

use ops::{Profile, Trace};
use run::{run_one, RunOpts, RunReport};
use std::collections::BTreeMap;

fn arg_val(args: &[String], name: &str) -> Option<String> {
    args.iter().position(|a| a == name).and_then(|i| args.get(i + 1)).cloned()
}
fn arg_u64(args: &[String], name: &str, default: u64) -> u64 {
    arg_val(args, name).and_then(|v| v.parse().ok()).unwrap_or(default)
}

pub fn run_seed(base: u64, prof: Profile, idx: u64) -> u64 {
    rng::mix(rng::mix(base, 0xC0DE_0000 + prof as u64), idx)
}

fn init_process() {
    // silent panic hook: panics are caught, classified and reported by the executor. Panics that
    // cannot unwind (std's `unsafe precondition(s) violated` checks) abort the process instead;
    // those are printed so that the driver can quote them.
    std::panic::set_hook(Box::new(|info| {
        let msg = exec::panic_text(info.payload());
        if msg.contains("unsafe precondition") {
            eprintln!("NON-UNWINDING-PANIC {msg} at {}", info.location().map_or(String::new(), |l| l.to_string()));
        }
    }));
    let _ = log::set_logger(&faults::LOGGER);
    log::set_max_level(log::LevelFilter::Warn);
    #[cfg(feature = "hooks")]
    yuvxyb::verif::set_yield_hook(Some(sched::library_hook));
    exec::init_probe();
}

fn esc(s: &str) -> String {
    s.replace('\\', "\\\\").replace('\n', "\\n").replace('\t', " ")
}

pub fn run_digest(tr: &ops::RunTrace, rep: &RunReport) -> u64 {
    let mut d = rep.sched.ihash ^ 0x1234;
    for op in tr.pre.iter().chain(tr.threads.iter().flatten()) {
        for b in op.to_line().bytes() {
            d = (d ^ u64::from(b)).wrapping_mul(0x100_0000_01b3);
        }
    }
    d
}

fn print_report(idx: u64, tr: &ops::RunTrace, rep: &RunReport) {
    let g = |k: &str| rep.counters.get(k).copied().unwrap_or(0);
    println!(
        "RUN idx={idx} seed={} digest={:016x} ihash={:016x} threads={} ops={} conv_ok={} ctor={} unspec={} inner={}",
        rep.seed,
        run_digest(tr, rep),
        rep.sched.ihash,
        rep.threads,
        g("ops"),
        g("conv_ok"),
        g("ctor_accept") + g("ctor_reject"),
        g("unspecified_resolved"),
        g("fault_preempt_inside_call"),
    );
    for v in &rep.violations {
        println!("VIOL idx={idx} seed={} inv={} props={} key={} seq={} tid={} msg={}", rep.seed, v.inv, if v.props.is_empty() { "-" } else { v.props }, v.key.replace(' ', "_"), v.seq, v.tid, esc(&v.msg));
    }
}

fn session_main(args: &[String], dump: bool) -> i32 {
    let Some(prof) = arg_val(args, "--profile").and_then(|p| Profile::parse(&p)) else {
        eprintln!("session: --profile safety|independence|constructors|metadata");
        return 2;
    };
    let (base, from, to) = (arg_u64(args, "--base", 0), arg_u64(args, "--from", 0), arg_u64(args, "--to", 1));
    init_process();
    let opts = RunOpts { miri: false, exe: std::env::current_exe().ok() };
    let mut totals: BTreeMap<&'static str, u64> = BTreeMap::new();
    let mut classes = std::collections::BTreeSet::new();
    let mut out = Trace { profile: prof.name().into(), runs: Vec::new() };
    // a run that does not finish (a conversion that loops forever, a deadlock between locks a
    // change added) must not hang the check: give up on the session after two minutes in one run
    static RUN_STARTED: std::sync::atomic::AtomicU64 = std::sync::atomic::AtomicU64::new(u64::MAX);
    static RUN_IDX: std::sync::atomic::AtomicU64 = std::sync::atomic::AtomicU64::new(0);
    let t0 = std::time::Instant::now();
    std::thread::spawn(move || loop {
        std::thread::sleep(std::time::Duration::from_secs(1));
        let started = RUN_STARTED.load(std::sync::atomic::Ordering::Relaxed);
        if started != u64::MAX && t0.elapsed().as_secs().saturating_sub(started) > 120 {
            eprintln!("RUN-TIMEOUT idx={} did not finish within 120 s", RUN_IDX.load(std::sync::atomic::Ordering::Relaxed));
            std::process::exit(3);
        }
    });
    for idx in from..to {
        RUN_IDX.store(idx, std::sync::atomic::Ordering::Relaxed);
        RUN_STARTED.store(t0.elapsed().as_secs(), std::sync::atomic::Ordering::Relaxed);
        let mut tr = ops::generate(run_seed(base, prof, idx), prof, false);
        if let Some(n) = std::env::var("DSIM_ISO").ok().and_then(|v| v.parse().ok()) {
            tr.knobs.iso = n; // experiment knob: fresh-process references per run (99 = all)
        }
        if let Some(n) = std::env::var("DSIM_GUARD").ok().and_then(|v| v.parse().ok()) {
            tr.knobs.guard = n; // experiment knob: allocator guard mode for every run
        }
        if !dump {
            // so that the driver knows which run was executing if the process dies
            println!("BEGIN idx={idx}");
            let _ = std::io::Write::flush(&mut std::io::stdout());
        }
        let rep = run_one(&tr, &opts);
        if dump {
            tr.sched = rep.sched.rec.clone();
            out.runs.push(tr.clone());
            for v in &rep.violations {
                eprintln!("dump: run idx={idx} violates {} key={} {}", v.inv, v.key, v.msg);
            }
        } else {
            print_report(idx, &tr, &rep);
        }
        for (k, v) in &rep.counters {
            *totals.entry(k).or_default() += v;
        }
        classes.extend(rep.classes);
    }
    if dump {
        print!("{}", out.to_text());
    } else {
        for (k, v) in &totals {
            println!("COUNT {k} {v}");
        }
        for c in &classes {
            println!("CLASS {}", c.replace(' ', "_"));
        }
        if std::env::var_os("DSIM_GUARD").is_some() {
            let maps = std::fs::read_to_string("/proc/self/maps").map_or(0, |m| m.lines().count());
            println!("MAPPINGS {maps}");
        }
        println!("SESSION-END from={from} to={to}");
    }
    0
}

/// exit 0: no violation (of the given property / key); 1: violation reproduced; 2: bad input
fn replay_main(args: &[String]) -> i32 {
    let Some(path) = args.get(1).filter(|a| !a.starts_with("--")) else {
        eprintln!("replay: usage: dsim replay FILE [--prop ID] [--key KEY]");
        return 2;
    };
    let text = match std::fs::read_to_string(path) {
        Ok(t) => t,
        Err(e) => {
            eprintln!("replay: {path}: {e}");
            return 2;
        }
    };
    let tr = match Trace::parse(&text) {
        Ok(t) => t,
        Err(e) => {
            eprintln!("replay: {path}: {e}");
            return 2;
        }
    };
    let prop = arg_val(args, "--prop");
    let key = arg_val(args, "--key");
    init_process();
    let opts = RunOpts { miri: false, exe: std::env::current_exe().ok() };
    let mut hit = false;
    let mut harness = false;
    // a trace with a stress phase is re-executed until it fails (the OS decides that phase's
    // interleaving); everything else is deterministic and runs once
    let attempts = if tr.runs.iter().any(|r| r.knobs.stress > 0) { arg_u64(args, "--attempts", 20) } else { 1 };
    for attempt in 0..attempts {
        for (i, r) in tr.runs.iter().enumerate() {
            let rep = run_one(r, &opts);
            print_report(i as u64, r, &rep);
            for v in &rep.violations {
                if v.inv == "HARNESS" {
                    harness = true;
                    continue;
                }
                let p_ok = prop.as_ref().map_or(true, |p| v.props.split(',').any(|x| x == p));
                let k_ok = key.as_ref().map_or(true, |k| v.key.replace(' ', "_") == *k);
                hit |= p_ok && k_ok;
            }
        }
        if hit {
            if attempts > 1 {
                println!("REPLAY-ATTEMPTS {} of at most {attempts}", attempt + 1);
            }
            break;
        }
    }
    if hit {
        println!("REPLAY-VIOLATION");
        1
    } else if harness {
        2
    } else {
        println!("REPLAY-CLEAN");
        0
    }
}

fn miri_main(args: &[String]) -> i32 {
    let prop = arg_val(args, "--prop");
    let seed = arg_u64(args, "--seed", 0);
    init_process();
    // the workload is either generated from (--profile, --seed) or handed over as explicit text
    let text = arg_val(args, "--trace-text").or_else(|| arg_val(args, "--trace-file").and_then(|p| std::fs::read_to_string(p).ok()));
    let tr = if let Some(text) = text {
        match Trace::parse(&text.replace("\\n", "\n")) {
            Ok(t) if !t.runs.is_empty() => t.runs[0].clone(),
            Ok(_) => {
                eprintln!("miri: empty trace");
                return 2;
            }
            Err(e) => {
                eprintln!("miri: {e}");
                return 2;
            }
        }
    } else {
        let Some(prof) = arg_val(args, "--profile").and_then(|p| Profile::parse(&p)) else {
            eprintln!("miri: --profile … --seed N | --trace-text TEXT");
            return 2;
        };
        ops::generate_kind(run_seed(seed, prof, 0), prof, true, Some(seed % 5))
    };
    model::LIGHT.store(true, std::sync::atomic::Ordering::Relaxed);
    let rep = run_one(&tr, &RunOpts { miri: true, exe: None });
    let g = |k: &str| rep.counters.get(k).copied().unwrap_or(0);
    println!("MIRI-RUN workload={seed} threads={} ops={} conv_ok={} refs={}", rep.threads, g("ops"), g("conv_ok"), g("refs_fresh_thread"));
    let mut bad = false;
    for v in &rep.violations {
        let mine = v.inv == "HARNESS" || prop.as_ref().map_or(true, |p| v.props.split(',').any(|x| x == p));
        println!("{} idx=0 seed={} inv={} props={} key={} seq={} tid={} msg={}", if mine { "VIOL" } else { "OTHER" }, rep.seed, v.inv, if v.props.is_empty() { "-" } else { v.props }, v.key.replace(' ', "_"), v.seq, v.tid, esc(&v.msg));
        bad |= mine;
    }
    i32::from(bad)
}

fn main() {
    let args: Vec<String> = std::env::args().skip(1).collect();
    let code = match args.first().map(String::as_str) {
        Some("session") => session_main(&args, false),
        Some("dump") => session_main(&args, true),
        Some("replay") => replay_main(&args),
        Some("evalone") => match args.get(1) {
            Some(p) => {
                init_process();
                run::evalone_main(p)
            }
            None => 2,
        },
        Some("miri") => miri_main(&args),
        Some("check") => driver::check_main(&args),
        Some("gen") => {
            // print the generated programme of one run (debugging aid)
            let prof = arg_val(&args, "--profile").and_then(|p| Profile::parse(&p)).unwrap_or(Profile::Safety);
            let miri = args.iter().any(|a| a == "--miri");
            let base = arg_u64(&args, "--base", 0);
            // with --miri, --base is a Miri workload number (as in `dsim miri --seed`)
            let tr = ops::generate_kind(run_seed(base, prof, arg_u64(&args, "--idx", 0)), prof, miri, if miri { Some(base % 5) } else { None });
            print!("{}", Trace { profile: prof.name().into(), runs: vec![tr] }.to_text());
            0
        }
        _ => {
            eprintln!("usage: dsim check|session|dump|replay|evalone|miri|gen …  (see src/main.rs)");
            2
        }
    };
    std::process::exit(code);
}
