//! Baton scheduler: simulated caller threads are real OS threads, but only the holder of the
//! baton runs; at every yield point the scheduler (seeded PRNG, or a recorded schedule when
//! replaying) decides who runs next. One seed = one exactly repeatable interleaving.

use crate::rng::{mix, Rng};
use std::cell::RefCell;
use std::sync::{Arc, Condvar, Mutex, MutexGuard};

pub struct Sched {
    st: Mutex<St>,
    cv: Condvar,
    /// kernel thread ids of the simulated threads (for the watchdog's /proc state probe)
    os_tids: Vec<std::sync::atomic::AtomicU64>,
}

fn own_os_tid() -> u64 {
    // "/proc/thread-self" -> "<pid>/task/<tid>"
    std::fs::read_link("/proc/thread-self").ok().and_then(|p| p.file_name().and_then(|n| n.to_str()).and_then(|n| n.parse().ok())).unwrap_or(0)
}

/// Kernel scheduling state of one of our threads: 'R' running, 'S' sleeping (futex wait), ...
fn os_thread_state(tid: u64) -> Option<char> {
    let stat = std::fs::read_to_string(format!("/proc/self/task/{tid}/stat")).ok()?;
    // "<tid> (<comm>) <state> ..."; comm may contain spaces and parentheses: take the last ')'
    stat[stat.rfind(')')? + 1..].trim_start().chars().next()
}
struct St {
    cur: usize,
    alive: Vec<bool>,
    rng: Rng,
    preempt: u64,
    replay: Option<Vec<u8>>,
    pos: usize,
    rec: Vec<u8>,
    ihash: u64,
    switches: u64,
    inner_switches: u64,
    yields: u64,
    /// bumped at every scheduler event; the coordinating thread watches it
    progress: u64,
    /// thread is inside the scheduler's own condvar wait (not yet resumed after being chosen)
    waiting: Vec<bool>,
    /// fallback: the baton holder blocked on something the scheduler does not own (a lock that a
    /// change added and that a parked thread holds). All threads are released for the rest of
    /// the run; the run completes, but its interleaving is no longer decided by the simulator.
    free: bool,
}

#[derive(Clone, Debug, Default)]
pub struct SchedReport {
    pub rec: Vec<u8>,
    pub ihash: u64,
    pub switches: u64,
    /// switches at yield points inside a conversion or inside the logger (not at op boundaries)
    pub inner_switches: u64,
    pub yields: u64,
    pub fell_back_to_free_running: bool,
}

thread_local! {
    static CUR: RefCell<Option<(Arc<Sched>, usize)>> = const { RefCell::new(None) };
}

fn site_hash(site: &str) -> u64 {
    site.bytes().fold(0xcbf2_9ce4_8422_2325u64, |h, b| (h ^ u64::from(b)).wrapping_mul(0x100_0000_01b3))
}

impl Sched {
    pub fn new(nthreads: usize, seed: u64, preempt: u64, replay: Option<Vec<u8>>) -> Arc<Self> {
        let mut st = St {
            cur: 0,
            alive: vec![true; nthreads],
            rng: Rng::new(seed ^ 0x5c4e_d000),
            preempt,
            replay,
            pos: 0,
            rec: Vec::new(),
            ihash: 0,
            switches: 0,
            inner_switches: 0,
            yields: 0,
            progress: 0,
            waiting: vec![false; nthreads],
            free: false,
        };
        // first decision: who starts
        let first = Self::decide(&mut st, usize::MAX, true);
        st.rec.push(first as u8);
        st.cur = first;
        Arc::new(Sched { st: Mutex::new(st), cv: Condvar::new(), os_tids: (0..nthreads).map(|_| std::sync::atomic::AtomicU64::new(0)).collect() })
    }

    fn lock(&self) -> MutexGuard<'_, St> {
        self.st.lock().unwrap_or_else(std::sync::PoisonError::into_inner)
    }

    /// `me == usize::MAX`: the caller is not (or no longer) a candidate itself.
    fn decide(st: &mut St, me: usize, boundary: bool) -> usize {
        let runnable: Vec<usize> = (0..st.alive.len()).filter(|i| st.alive[*i]).collect();
        debug_assert!(!runnable.is_empty());
        let stay = if me != usize::MAX && st.alive[me] { me } else { runnable[0] };
        if let Some(rp) = &st.replay {
            let c = rp.get(st.pos).copied();
            st.pos += 1;
            return match c {
                Some(c) if (c as usize) < st.alive.len() && st.alive[c as usize] => c as usize,
                _ => stay,
            };
        }
        if boundary || st.rng.pct(st.preempt) {
            runnable[st.rng.below(runnable.len() as u64) as usize]
        } else {
            stay
        }
    }

    /// Called by a simulated thread before it does anything: wait for the baton.
    pub fn enter(self: &Arc<Self>, tid: usize) {
        CUR.with(|c| *c.borrow_mut() = Some((Arc::clone(self), tid)));
        self.os_tids[tid].store(own_os_tid(), std::sync::atomic::Ordering::Relaxed);
        let mut st = self.lock();
        st.progress += 1;
        st.waiting[tid] = true;
        while st.cur != tid && !st.free {
            st = self.cv.wait(st).unwrap_or_else(std::sync::PoisonError::into_inner);
        }
        st.waiting[tid] = false;
        st.progress += 1;
    }

    fn yield_at(&self, tid: usize, site: &'static str, boundary: bool) {
        let mut st = self.lock();
        st.progress += 1;
        if st.free {
            return;
        }
        debug_assert_eq!(st.cur, tid);
        st.yields += 1;
        let next = Self::decide(&mut st, tid, boundary);
        st.rec.push(next as u8);
        if next != tid {
            st.switches += 1;
            if !boundary || site == "logger" {
                st.inner_switches += 1;
            }
            st.ihash = mix(st.ihash, ((tid as u64) << 8 | next as u64) ^ site_hash(site));
            st.cur = next;
            self.cv.notify_all();
            st.waiting[tid] = true;
            while st.cur != tid && !st.free {
                st = self.cv.wait(st).unwrap_or_else(std::sync::PoisonError::into_inner);
            }
            st.waiting[tid] = false;
            st.progress += 1;
        }
    }

    /// Progress counter for the coordinating thread's watchdog.
    pub fn progress(&self) -> u64 {
        self.lock().progress
    }

    /// Is the baton holder asleep in the kernel (blocked on a lock the simulator does not own)?
    /// A holder that is merely slow is in state 'R'.
    pub fn holder_is_blocked(&self) -> bool {
        let (cur, in_own_wait) = {
            let st = self.lock();
            (st.cur, st.waiting.get(st.cur).copied().unwrap_or(true))
        };
        if in_own_wait {
            // chosen but not yet resumed from the scheduler's own wait: wake-up latency, not a block
            return false;
        }
        let tid = self.os_tids.get(cur).map_or(0, |t| t.load(std::sync::atomic::Ordering::Relaxed));
        let b = tid != 0 && os_thread_state(tid) == Some('S');
        if b && std::env::var_os("DSIM_DEBUG_WATCHDOG").is_some() {
            let rd = |f: &str| std::fs::read_to_string(format!("/proc/self/task/{tid}/{f}")).unwrap_or_default();
            eprintln!("WATCHDOG holder sim-{cur} tid {tid} asleep: wchan={} syscall={} ", rd("wchan").trim(), rd("syscall").trim());
        }
        b
    }

    /// Watchdog fallback (see `St::free`).
    pub fn release_all(&self) {
        let mut st = self.lock();
        st.free = true;
        self.cv.notify_all();
    }

    /// Called by a simulated thread when its programme is finished.
    pub fn leave(&self, tid: usize) {
        CUR.with(|c| *c.borrow_mut() = None);
        let mut st = self.lock();
        st.progress += 1;
        st.alive[tid] = false;
        if st.free {
            return;
        }
        if st.alive.iter().any(|a| *a) {
            let next = Self::decide(&mut st, usize::MAX, true);
            st.rec.push(next as u8);
            st.ihash = mix(st.ihash, 0xdead_0000 | (tid as u64) << 8 | next as u64);
            st.cur = next;
            self.cv.notify_all();
        }
    }

    pub fn report(&self) -> SchedReport {
        let st = self.lock();
        SchedReport { rec: st.rec.clone(), ihash: st.ihash, switches: st.switches, inner_switches: st.inner_switches, yields: st.yields, fell_back_to_free_running: st.free }
    }
}

/// Yield point usable from anywhere (library hook, logger, executor). No-op on threads that are
/// not simulated threads of a running baton schedule (reference threads, Miri mode).
pub fn yield_here(site: &'static str, boundary: bool) {
    let cur = CUR.with(|c| c.borrow().clone());
    if let Some((s, tid)) = cur {
        s.yield_at(tid, site, boundary);
    }
}

/// The callback installed into yuvxyb's `verif-hooks` yield points.
#[cfg_attr(not(feature = "hooks"), allow(dead_code))]
pub fn library_hook(site: &'static str) {
    yield_here(site, false);
}
