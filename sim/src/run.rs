//! One simulated run: preamble, simulated caller threads under the baton scheduler (or free
//! running under Miri), reference phase, fresh-process references, final pool verification.

use crate::exec::*;
use crate::faults::*;
use crate::model::*;
use crate::ops::*;
use crate::sched::{Sched, SchedReport};
use std::collections::BTreeMap;
use std::panic::{catch_unwind, AssertUnwindSafe};
use std::sync::atomic::Ordering;
use std::sync::Arc;

pub struct RunOpts {
    /// free-running threads, no process spawning, light reference phase
    pub miri: bool,
    /// path of this executable, for fresh-process references (None = skip them)
    pub exe: Option<std::path::PathBuf>,
}

#[derive(Default)]
pub struct RunReport {
    pub seed: u64,
    pub violations: Vec<Violation>,
    pub sched: SchedReport,
    pub counters: BTreeMap<&'static str, u64>,
    pub classes: Vec<String>,
    pub threads: usize,
}

const PRE_TID: usize = 99;

fn snapshot_fault_counters() -> [u64; 7] {
    [
        LOG_CALLS.load(Ordering::Relaxed),
        LOG_PANICS.load(Ordering::Relaxed),
        LOG_REENTRIES.load(Ordering::Relaxed),
        LOG_YIELDS.load(Ordering::Relaxed),
        LOG_REENTER_BAD.load(Ordering::Relaxed),
        HEAP_FILLED_BLOCKS.load(Ordering::Relaxed),
        LOG_DISABLED_SETS.load(Ordering::Relaxed),
    ]
}

pub fn run_one(tr: &RunTrace, opts: &RunOpts) -> RunReport {
    init_probe();
    let before = snapshot_fault_counters();
    LOG_MODE.store(LOG_COUNT, Ordering::Relaxed);
    log::set_max_level(log::LevelFilter::Warn);
    HEAP_FILL.store(tr.knobs.heap as u8, Ordering::Relaxed);
    GUARD_MODE.store(tr.knobs.guard as u8, Ordering::Relaxed);
    let guarded_before = GUARDED_BLOCKS.load(Ordering::Relaxed);
    let heap_before = (crate::faults::DOUBLE_FREES.load(Ordering::Relaxed), crate::faults::WRITES_AFTER_FREE.load(Ordering::Relaxed), crate::faults::RECYCLED_BLOCKS.load(Ordering::Relaxed));

    let world = Arc::new(World::new(tr.knobs.slots as usize, tr.knobs.repeat != 0));
    {
        let ctx = Ctx { w: &world, tid: PRE_TID };
        for op in &tr.pre {
            ctx.exec(op);
        }
    }

    let n = tr.threads.len();
    let mut sched_report = SchedReport::default();
    if n > 0 {
        let sched = if opts.miri { None } else { Some(Sched::new(n, tr.seed, tr.knobs.preempt, if tr.sched.is_empty() { None } else { Some(tr.sched.clone()) })) };
        let mut handles = Vec::new();
        for (tid, ops) in tr.threads.iter().enumerate() {
            let (world, ops, sched) = (Arc::clone(&world), ops.clone(), sched.clone());
            let h = std::thread::Builder::new()
                .name(format!("sim-{tid}"))
                .spawn(move || {
                    if let Some(s) = &sched {
                        s.enter(tid);
                    }
                    let r = catch_unwind(AssertUnwindSafe(|| {
                        let ctx = Ctx { w: &world, tid };
                        for op in &ops {
                            ctx.exec(op);
                        }
                    }));
                    if let Some(s) = &sched {
                        s.leave(tid);
                    }
                    if let Err(p) = r {
                        world.violate("HARNESS", "", "harness-panic".into(), format!("simulated thread {tid} died: {}", panic_text(&*p)), 0, tid);
                    }
                })
                .expect("spawn simulated thread");
            handles.push(h);
        }
        // watchdog: if no scheduler event happens for a while although threads are still alive,
        // the baton holder is blocked on something outside the simulator (e.g. a lock a change
        // added, held by a parked thread): release everybody rather than hang
        if let Some(s) = &sched {
            let (mut last, mut stale, mut blocked, mut spins) = (s.progress(), 0u32, 0u32, 0u32);
            while handles.iter().any(|h| !h.is_finished()) {
                if stale == 0 && spins < 200 {
                    // most runs finish within microseconds: do not pay a timer sleep for them
                    spins += 1;
                    std::thread::yield_now();
                    continue;
                }
                std::thread::sleep(std::time::Duration::from_millis(1));
                let now = s.progress();
                if now == last {
                    stale += 1;
                    // no scheduler event for a millisecond: is the holder asleep in the kernel?
                    blocked = if s.holder_is_blocked() { blocked + 1 } else { 0 };
                    // three consecutive sightings (or, should /proc be unavailable, two seconds
                    // without any event) and everybody is released
                    if blocked == 3 || stale == 2000 {
                        s.release_all();
                    }
                } else {
                    last = now;
                    stale = 0;
                    blocked = 0;
                    spins = 0;
                }
            }
        }
        for h in handles {
            let _ = h.join();
        }
        if let Some(s) = &sched {
            sched_report = s.report();
        }
    }

    // ------------------------------------------------------------ reference phase
    // quiescent: logger does nothing, heap pattern differs from the run's
    LOG_MODE.store(LOG_OFF, Ordering::Relaxed);
    log::set_max_level(log::LevelFilter::Warn);
    if tr.knobs.heap != 0 {
        HEAP_FILL.store((tr.knobs.heap as u8) ^ 0x5a | 1, Ordering::Relaxed);
    }
    let pending = std::mem::take(&mut *world.pending.lock().unwrap_or_else(std::sync::PoisonError::into_inner));
    // the float battery under Miri exists for C07's second sentence (values reaching unchecked
    // numeric steps); float images have no layout a rebuild could vary, so re-evaluating every
    // conversion would only double the cost
    let pending = if opts.miri && tr.knobs.scn == 5 { Vec::new() } else { pending };
    let mut deep_budget = if opts.miri { 1usize } else { 60 };
    for p in &pending {
        if matches!(p.outcome, Outcome::Panic(PanicClass::Logger)) {
            continue;
        }
        let cs = CONVS[conv_canon(p.op.which) as usize];
        // under Miri an image of thousands of pixels is there for the memory-safety oracle; a
        // second and third evaluation of it would triple the cost of the execution
        if opts.miri {
            let px = match &*p.input {
                crate::model::Val::Yuv { planes, .. } => planes[0].w * planes[0].h,
                crate::model::Val::Flt { w, h, .. } => w * h,
            };
            if px > 2000 {
                continue;
            }
        }
        // I3b: fresh OS thread (fresh thread-local state), canonical rebuild of the input
        let (input, op) = (Arc::clone(&p.input), p.op.clone());
        let reference = std::thread::spawn(move || ref_eval(&input, &op)).join().unwrap_or_else(|_| Outcome::Panic(PanicClass::Other("reference thread died".into())));
        world.stats.refs_thread.fetch_add(1, Ordering::Relaxed);
        if !reference.same(&p.outcome, &p.input) {
            world.violate(
                "I3",
                "C11",
                format!("I3:ref-thread:{}", cs.name),
                format!(
                    "{} on {} gave {} during the run (thread {}, step {}) but {} when evaluated afterwards on a fresh thread from an unpadded rebuild of the same logical input",
                    cs.name,
                    p.input.brief(),
                    p.outcome.brief(),
                    p.tid,
                    p.seq,
                    reference.brief()
                ),
                p.seq,
                p.tid,
            );
            // a UB-hook panic that only the reference sees is still a C07 matter
            if let Outcome::Panic(PanicClass::Ub(m)) = &reference {
                world.violate("I1", "C07", "I1:reference".into(), format!("reference evaluation of {} hit an unsafe-site assertion: {m}", cs.name), p.seq, p.tid);
            }
        }
        if let Outcome::Ok(out) = &p.outcome {
            if deep_budget > 0 {
                deep_budget -= 1;
                if let Some((key, msg)) = pointwise_check(&p.input, &p.op, out, &world.stats) {
                    world.violate("I4", "C11", key, msg, p.seq, p.tid);
                }
                if !opts.miri {
                    if let Some((key, msg)) = band_check(&p.input, &p.op, out, &world.stats) {
                        world.violate("I4", "C11", key, msg, p.seq, p.tid);
                    }
                }
                if let Some((key, msg)) = label_check(&p.input, &p.op, out, &world.stats) {
                    world.violate("I6", "C15", key, msg, p.seq, p.tid);
                }
            }
        }
    }

    // ------------------------------------------------------------ fresh-process references (I3c)
    if let (Some(exe), false) = (&opts.exe, opts.miri) {
        let cands: Vec<&Pending> = pending.iter().filter(|p| !matches!(p.outcome, Outcome::Panic(PanicClass::Logger)) && special_mask(&p.input).is_none()).collect();
        if !cands.is_empty() {
            // iso >= 99 (set by the minimiser): every candidate, so that dropping operations does
            // not change which one is sampled
            let picks: Vec<usize> = if tr.knobs.iso >= 99 {
                (0..cands.len().min(64)).collect()
            } else {
                (0..tr.knobs.iso).map(|k| (crate::rng::mix(tr.seed, 0x150 + k) % cands.len() as u64) as usize).collect()
            };
            for pi in picks {
                let p = cands[pi];
                match eval_in_fresh_process(exe, &p.input, &p.op) {
                    Ok(line) => {
                        world.stats.refs_process.fetch_add(1, Ordering::Relaxed);
                        let mine = outcome_line(&p.outcome);
                        if line != mine {
                            let cs = CONVS[conv_canon(p.op.which) as usize];
                            world.violate(
                                "I3",
                                "C11",
                                format!("I3:ref-process:{}", cs.name),
                                format!("{} on {} gave `{mine}` during the run but `{line}` as the only library activity of a fresh process", cs.name, p.input.brief()),
                                p.seq,
                                p.tid,
                            );
                        }
                    }
                    Err(e) => world.violate("HARNESS", "", "harness-evalone".into(), format!("fresh-process reference failed to run: {e}"), p.seq, p.tid),
                }
            }
        }
    }

    // ------------------------------------------------------------ stress phase (scout, not deterministic)
    if tr.knobs.stress > 0 && !opts.miri {
        stress_phase(&world, &pending, tr.knobs.stress, tr.threads.len().clamp(3, 4));
    }

    // ------------------------------------------------------------ final retention check (I2/I5)
    {
        let ctx = Ctx { w: &world, tid: PRE_TID };
        let slots = tr.knobs.slots;
        for s in 0..slots {
            let mut op = Op::blank(Kind::Read);
            op.slot = s;
            ctx.exec(&op);
        }
    }
    HEAP_FILL.store(0, Ordering::Relaxed);
    GUARD_MODE.store(0, Ordering::Relaxed);
    crate::faults::recycle_flush();
    let (dfree, waf) = (crate::faults::DOUBLE_FREES.load(Ordering::Relaxed) - heap_before.0, crate::faults::WRITES_AFTER_FREE.load(Ordering::Relaxed) - heap_before.1);
    if dfree > 0 {
        world.violate("I1", "C07", "I1:heap:double-free".into(), format!("{dfree} block(s) were freed while already free (the simulator's allocator was parking freed blocks for reuse in this run): some owner released storage that was no longer its own"), 0, PRE_TID);
    }
    if waf > 0 {
        world.violate("I1", "C07", "I1:heap:write-after-free".into(), format!("{waf} freed block(s) no longer held the allocator's free pattern when they were handed out again: something wrote through a pointer to storage it had released"), 0, PRE_TID);
    }

    let after = snapshot_fault_counters();
    if after[4] > before[4] {
        world.violate("I3", "C11", "I3:reentrant-logger".into(), "a conversion performed re-entrantly from inside the logger callback gave a result different from the same conversion at start-up".into(), 0, PRE_TID);
    }

    let st = &world.stats;
    let mut c: BTreeMap<&'static str, u64> = BTreeMap::new();
    let ld = |a: &std::sync::atomic::AtomicU64| a.load(Ordering::Relaxed);
    c.insert("ops", ld(&st.ops));
    c.insert("ops_skipped_empty_slot", ld(&st.skipped));
    c.insert("conv_ok", ld(&st.conv_ok));
    c.insert("conv_err", ld(&st.conv_err));
    c.insert("conv_panic", ld(&st.conv_panic));
    c.insert("ctor_accept", ld(&st.ctor_accept));
    c.insert("ctor_reject", ld(&st.ctor_reject));
    c.insert("ctor_illformed_args", ld(&st.ill_formed));
    c.insert("mutations", ld(&st.mutations));
    c.insert("clone_from_calls", ld(&st.clone_froms));
    c.insert("same_size_churns_after_rewrap", ld(&st.churns));
    c.insert("reads", ld(&st.reads));
    c.insert("repeats_same_thread", ld(&st.repeats));
    c.insert("refs_fresh_thread", ld(&st.refs_thread));
    c.insert("refs_fresh_process", ld(&st.refs_process));
    c.insert("stress_phase_conversions", ld(&st.stress_convs));
    c.insert("pointwise_pixels", ld(&st.pointwise_pixels));
    c.insert("band_decompositions", ld(&st.band_checks));
    c.insert("label_checks", ld(&st.label_checks));
    c.insert("unspecified_resolved", ld(&st.unspecified_resolved));
    // fault kinds that actually fired
    c.insert("fault_unwind", ld(&st.unwinds));
    c.insert("fault_arc_contention", ld(&st.arc_contention));
    c.insert("fault_shared_borrow_overlap", ld(&st.shared_borrow));
    c.insert("fault_pad_fill", ld(&st.pad_filled));
    c.insert("fault_special_floats", ld(&st.special_floats));
    c.insert("fault_level_flip", ld(&st.level_flips));
    c.insert("fault_logger_call", after[0] - before[0]);
    c.insert("fault_logger_panic", after[1] - before[1]);
    c.insert("fault_logger_reenter", after[2] - before[2]);
    c.insert("fault_logger_yield", after[3] - before[3]);
    c.insert("fault_logger_disabled", after[6] - before[6]);
    c.insert("fault_heap_fill_blocks", after[5] - before[5]);
    c.insert("fault_guard_page_blocks", GUARDED_BLOCKS.load(Ordering::Relaxed) - guarded_before);
    c.insert("runs_with_guard_pages", u64::from(matches!(tr.knobs.guard, 1 | 2)));
    c.insert("fault_recycled_blocks", crate::faults::RECYCLED_BLOCKS.load(Ordering::Relaxed) - heap_before.2);
    c.insert("runs_with_eager_block_reuse", u64::from(tr.knobs.guard == 3));
    c.insert("fault_preempt_inside_call", sched_report.inner_switches);
    c.insert("sched_yield_points", sched_report.yields);
    c.insert("sched_switches", sched_report.switches);
    c.insert("sched_fallback_free_running", u64::from(sched_report.fell_back_to_free_running));
    c.insert(["scenario_random_mix", "scenario_contention", "scenario_sweep", "scenario_battery", "scenario_clone_family", "scenario_float_battery", "scenario_huge_image"][(tr.knobs.scn as usize).min(6)], 1);
    c.insert("runs_with_stress_phase", u64::from(tr.knobs.stress > 0));
    c.insert("runs_with_immediate_repetition", u64::from(tr.knobs.repeat != 0));

    let violations = std::mem::take(&mut *world.viol.lock().unwrap_or_else(std::sync::PoisonError::into_inner));
    let classes = world.classes.lock().unwrap_or_else(std::sync::PoisonError::into_inner).iter().cloned().collect();
    RunReport { seed: tr.seed, violations, sched: sched_report, counters: c, classes, threads: n }
}

// ------------------------------------------------------------------ stress phase
/// Re-executes the run's conversions concurrently on real, unscheduled OS threads and compares
/// every result with the quiescent one taken just before. Finds races between two statements of
/// code a change added (a torn cache entry), which the baton engine cannot reach and the Miri
/// engine reaches only with luck in a quick run. It is a scout: which thread runs when is decided
/// by the OS, so a failure found here may not replay; the driver says so in the replay file.
fn stress_phase(world: &Arc<World>, pending: &[Pending], rounds: u64, nthreads: usize) {
    // jobs: distinct conversions of this run with special-free inputs, small enough to be quick
    let mut jobs: Vec<(Arc<Val>, Op, Outcome)> = Vec::new();
    for p in pending {
        if jobs.len() >= 12 {
            break;
        }
        let (w, h) = p.input.dims();
        if w * h == 0 || w * h > 64 || special_mask(&p.input).is_some() || matches!(p.outcome, Outcome::Panic(_)) {
            continue;
        }
        // quiescent expectation, on this thread, now
        let expect = ref_eval(&p.input, &p.op);
        if matches!(expect, Outcome::Panic(_)) {
            continue;
        }
        jobs.push((Arc::clone(&p.input), p.op.clone(), expect));
    }
    if jobs.len() < 2 {
        return;
    }
    let jobs = Arc::new(jobs);
    let start = Arc::new(std::sync::Barrier::new(nthreads));
    let handles: Vec<_> = (0..nthreads)
        .map(|t| {
            let (jobs, start, world) = (Arc::clone(&jobs), Arc::clone(&start), Arc::clone(world));
            std::thread::spawn(move || {
                start.wait();
                for round in 0..rounds as usize {
                    for k in 0..jobs.len() {
                        let (input, op, expect) = &jobs[(k + t * 3 + round) % jobs.len()];
                        let got = ref_eval(input, op);
                        world.stats.stress_convs.fetch_add(1, Ordering::Relaxed);
                        if !got.same(expect, input) {
                            let cs = CONVS[conv_canon(op.which) as usize];
                            world.violate(
                                "I3",
                                "C11",
                                format!("I3:stress:{}", cs.name),
                                format!(
                                    "{} on {} gave {} while {} threads were converting concurrently, but {} when evaluated alone just before (free-running stress phase: found under the OS scheduler, replay is statistical)",
                                    cs.name,
                                    input.brief(),
                                    got.brief(),
                                    jobs.len().min(4),
                                    expect.brief()
                                ),
                                0,
                                t,
                            );
                            return;
                        }
                    }
                }
            })
        })
        .collect();
    for h in handles {
        let _ = h.join();
    }
}

// ------------------------------------------------------------------ fresh-process reference
pub fn outcome_line(o: &Outcome) -> String {
    match o {
        Outcome::Ok(v) => format!("ok {:016x}", v.digest()),
        Outcome::Err(e) => format!("err {e}"),
        Outcome::Panic(PanicClass::Ub(_)) => "panic ub".into(),
        Outcome::Panic(PanicClass::Logger) => "panic logger".into(),
        Outcome::Panic(PanicClass::Other(_)) => "panic other".into(),
    }
}

pub fn val_to_text(v: &Val) -> String {
    use std::fmt::Write as _;
    let mut s = String::new();
    match v {
        Val::Yuv { ty, cfg, planes } => {
            let _ = writeln!(s, "yuv {} {} {} {} {} {} {} {}", ty, cfg.bd, cfg.ssx, cfg.ssy, cfg.full, cfg.mc, cfg.tc, cfg.cp);
            for p in planes {
                let _ = write!(s, "plane {} {} {} {}", p.w, p.h, p.xdec, p.ydec);
                for x in &p.s {
                    let _ = write!(s, " {x}");
                }
                s.push('\n');
            }
        }
        Val::Flt { class, w, h, t, p, bits } => {
            let _ = write!(s, "flt {class} {w} {h} {t} {p}");
            for b in bits {
                let _ = write!(s, " {:x} {:x} {:x}", b[0], b[1], b[2]);
            }
            s.push('\n');
        }
    }
    s
}

pub fn val_from_text(text: &str) -> Result<Val, String> {
    let mut lines = text.lines();
    let head = lines.next().ok_or("empty value")?;
    let mut it = head.split_whitespace();
    let num = |x: Option<&str>| -> Result<u64, String> { x.ok_or("short line")?.parse::<u64>().map_err(|e| e.to_string()) };
    match it.next() {
        Some("yuv") => {
            let ty = num(it.next())?;
            let c: Vec<u64> = (0..7).map(|_| num(it.next())).collect::<Result<_, _>>()?;
            let cfg = CfgI { bd: c[0], ssx: c[1], ssy: c[2], full: c[3], mc: c[4], tc: c[5], cp: c[6] };
            let mut planes = Vec::new();
            for _ in 0..3 {
                let l = lines.next().ok_or("missing plane")?;
                let mut it = l.split_whitespace();
                if it.next() != Some("plane") {
                    return Err("expected plane".into());
                }
                let (w, h, xdec, ydec) = (num(it.next())? as usize, num(it.next())? as usize, num(it.next())? as usize, num(it.next())? as usize);
                let s: Vec<u16> = it.map(|x| x.parse::<u16>().map_err(|e| e.to_string())).collect::<Result<_, _>>()?;
                if s.len() != w * h {
                    return Err("plane sample count".into());
                }
                planes.push(PlaneVal { w, h, xdec, ydec, s });
            }
            let p2 = planes.pop().ok_or("p2")?;
            let p1 = planes.pop().ok_or("p1")?;
            let p0 = planes.pop().ok_or("p0")?;
            Ok(Val::Yuv { ty, cfg, planes: [p0, p1, p2] })
        }
        Some("flt") => {
            let class = num(it.next())?;
            let (w, h, t, p) = (num(it.next())? as usize, num(it.next())? as usize, num(it.next())?, num(it.next())?);
            let raw: Vec<u32> = it.map(|x| u32::from_str_radix(x, 16).map_err(|e| e.to_string())).collect::<Result<_, _>>()?;
            if raw.len() % 3 != 0 {
                return Err("float count".into());
            }
            Ok(Val::Flt { class, w, h, t, p, bits: raw.chunks(3).map(|c| [c[0], c[1], c[2]]).collect() })
        }
        _ => Err("unknown value kind".into()),
    }
}

static EVAL_COUNTER: std::sync::atomic::AtomicU64 = std::sync::atomic::AtomicU64::new(0);

fn eval_in_fresh_process(exe: &std::path::Path, input: &Val, op: &Op) -> Result<String, String> {
    let dir = std::env::temp_dir();
    let path = dir.join(format!("dsim-evalone-{}-{}.txt", std::process::id(), EVAL_COUNTER.fetch_add(1, Ordering::Relaxed)));
    let text = format!("{}\n{}", op.to_line(), val_to_text(input));
    std::fs::write(&path, text).map_err(|e| format!("write {}: {e}", path.display()))?;
    let out = std::process::Command::new(exe).arg("evalone").arg(&path).output();
    let _ = std::fs::remove_file(&path);
    let out = out.map_err(|e| format!("spawn: {e}"))?;
    let stdout = String::from_utf8_lossy(&out.stdout);
    for l in stdout.lines() {
        if let Some(rest) = l.strip_prefix("OUTCOME ") {
            return Ok(rest.to_string());
        }
    }
    Err(format!("child printed no OUTCOME line (status {:?}): {}", out.status, String::from_utf8_lossy(&out.stderr)))
}

/// `dsim evalone <file>`: the conversion is the only library activity of this process.
pub fn evalone_main(path: &str) -> i32 {
    let text = match std::fs::read_to_string(path) {
        Ok(t) => t,
        Err(e) => {
            eprintln!("evalone: {e}");
            return 2;
        }
    };
    let (opline, rest) = text.split_once('\n').unwrap_or((&text, ""));
    let op = match Op::parse_line(opline) {
        Ok(o) => o,
        Err(e) => {
            eprintln!("evalone: {e}");
            return 2;
        }
    };
    let input = match val_from_text(rest) {
        Ok(v) => v,
        Err(e) => {
            eprintln!("evalone: {e}");
            return 2;
        }
    };
    LOG_MODE.store(LOG_OFF, Ordering::Relaxed);
    let o = ref_eval(&input, &op);
    println!("OUTCOME {}", outcome_line(&o));
    0
}
