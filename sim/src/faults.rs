//! Fault seams the simulator owns: heap contents (global allocator) and the logger.

use std::alloc::{GlobalAlloc, Layout, System};
use std::cell::Cell;
use std::sync::atomic::{AtomicU64, AtomicU8, Ordering};

// ------------------------------------------------------------------ heap
/// Fill byte for fresh blocks (freed blocks get its complement). 0 = off.
pub static HEAP_FILL: AtomicU8 = AtomicU8::new(0);
pub static HEAP_FILLED_BLOCKS: AtomicU64 = AtomicU64::new(0);

#[cfg_attr(miri, allow(dead_code))]
/// Guard mode (per-run knob): allocations of at least `GUARD_MIN` bytes are placed at the END of
/// their own page range inside a reserved arena, directly in front of inaccessible pages, and
/// are made inaccessible again when freed. A read or write past the end of a large buffer - by
/// any means, raw pointers included - or a use after free then kills the session with SIGSEGV
/// natively, at full speed and for frames far too large for Miri; the driver reports a session
/// killed by a signal as I1 (C07). Small allocations are left to the hooks, to std's
/// debug-assertion checks and to Miri.
pub static GUARD_MODE: AtomicU8 = AtomicU8::new(0);
pub static GUARDED_BLOCKS: AtomicU64 = AtomicU64::new(0);
const GUARD_MIN: usize = 1024;
const PAGE: usize = 4096;
const GUARD_LEN: usize = 64 * 1024;
const ARENA_LEN: usize = 1 << 39; // 512 GiB of address space, never committed
static ARENA_BASE: std::sync::atomic::AtomicUsize = std::sync::atomic::AtomicUsize::new(0);
static ARENA_NEXT: std::sync::atomic::AtomicUsize = std::sync::atomic::AtomicUsize::new(0);

extern "C" {
    fn mmap(addr: *mut u8, len: usize, prot: i32, flags: i32, fd: i32, off: i64) -> *mut u8;
    fn mprotect(addr: *mut u8, len: usize, prot: i32) -> i32;
}
const PROT_NONE: i32 = 0;
const PROT_RW: i32 = 3;
const MAP_PRIVATE: i32 = 2;
const MAP_FIXED: i32 = 0x10;
const MAP_ANONYMOUS: i32 = 0x20;
const MAP_NORESERVE: i32 = 0x4000;

fn arena_base() -> usize {
    let b = ARENA_BASE.load(Ordering::Acquire);
    if b != 0 {
        return if b == usize::MAX { 0 } else { b };
    }
    // SAFETY: reserving fresh inaccessible address space; no existing mapping is touched
    let p = unsafe { mmap(std::ptr::null_mut(), ARENA_LEN, PROT_NONE, MAP_PRIVATE | MAP_ANONYMOUS | MAP_NORESERVE, -1, 0) } as usize;
    let got = if p == usize::MAX || p == 0 { usize::MAX } else { p };
    match ARENA_BASE.compare_exchange(0, got, Ordering::AcqRel, Ordering::Acquire) {
        Ok(_) => {
            if got != usize::MAX {
                ARENA_NEXT.store(got, Ordering::Release);
            }
            if got == usize::MAX {
                0
            } else {
                got
            }
        }
        Err(other) => {
            // somebody else reserved first; our reservation stays unused (address space only)
            if other == usize::MAX {
                0
            } else {
                other
            }
        }
    }
}
fn in_arena(p: *mut u8) -> bool {
    let b = ARENA_BASE.load(Ordering::Acquire);
    b != 0 && b != usize::MAX && (p as usize) >= b && (p as usize) < b + ARENA_LEN
}
/// The pages a guarded block occupies, derived from (address, size) alone so that allocation and
/// release agree exactly and no accessible page is ever left behind.
fn block_pages(start: usize, size: usize) -> (usize, usize) {
    (start & !(PAGE - 1), (start + size + PAGE - 1) & !(PAGE - 1))
}

fn guarded_alloc(l: Layout) -> *mut u8 {
    let base = arena_base();
    if base == 0 || l.align() > PAGE || l.size() == 0 {
        return std::ptr::null_mut();
    }
    let span = (l.size() + l.align() + PAGE - 1) / PAGE * PAGE + GUARD_LEN;
    // wait until the first reserver has published the bump pointer
    while ARENA_NEXT.load(Ordering::Acquire) == 0 {
        std::hint::spin_loop();
    }
    let at = ARENA_NEXT.fetch_add(span, Ordering::AcqRel);
    if at + span > base + ARENA_LEN {
        return std::ptr::null_mut(); // arena used up: fall back to the system allocator
    }
    // mode 1: the block ends where the guard begins (over-runs fault); mode 2: the block starts
    // right behind the previous block's guard (under-runs fault)
    let start = if GUARD_MODE.load(Ordering::Relaxed) == 2 { at } else { ((at + span - GUARD_LEN) - l.size()) & !(l.align() - 1) };
    let (lo, hi) = block_pages(start, l.size());
    // SAFETY: [lo, hi) lies inside the span just taken from our own reserved arena
    if unsafe { mprotect(lo as *mut u8, hi - lo, PROT_RW) } != 0 {
        return std::ptr::null_mut(); // e.g. the mapping-count limit: fall back to the system allocator
    }
    GUARDED_BLOCKS.fetch_add(1, Ordering::Relaxed);
    start as *mut u8
}
fn guarded_free(p: *mut u8, l: Layout) {
    let (lo, hi) = block_pages(p as usize, l.size());
    // give the memory back and leave the range inaccessible for good (use after free faults)
    // SAFETY: exactly the pages `guarded_alloc` made accessible for this block, inside our arena
    unsafe {
        let _ = mmap(lo as *mut u8, hi - lo, PROT_NONE, MAP_PRIVATE | MAP_ANONYMOUS | MAP_NORESERVE | MAP_FIXED, -1, 0);
    }
}

pub struct FillAlloc;
// SAFETY: forwards to `System`; additionally writes into blocks it has just obtained from, or is
// about to return to, `System` — memory this allocator owns at that moment.
unsafe impl GlobalAlloc for FillAlloc {
    unsafe fn alloc(&self, l: Layout) -> *mut u8 {
        if l.size() >= GUARD_MIN && GUARD_MODE.load(Ordering::Relaxed) != 0 {
            let p = guarded_alloc(l);
            if !p.is_null() {
                let f = HEAP_FILL.load(Ordering::Relaxed);
                if f != 0 {
                    std::ptr::write_bytes(p, f, l.size());
                }
                return p;
            }
        }
        let p = System.alloc(l);
        let f = HEAP_FILL.load(Ordering::Relaxed);
        if f != 0 && !p.is_null() {
            std::ptr::write_bytes(p, f, l.size());
            HEAP_FILLED_BLOCKS.fetch_add(1, Ordering::Relaxed);
        }
        p
    }
    unsafe fn alloc_zeroed(&self, l: Layout) -> *mut u8 {
        if l.size() >= GUARD_MIN && GUARD_MODE.load(Ordering::Relaxed) != 0 {
            let p = guarded_alloc(l);
            if !p.is_null() {
                return p; // fresh anonymous pages are zero
            }
        }
        System.alloc_zeroed(l)
    }
    unsafe fn dealloc(&self, p: *mut u8, l: Layout) {
        if in_arena(p) {
            guarded_free(p, l);
            return;
        }
        let f = HEAP_FILL.load(Ordering::Relaxed);
        if f != 0 {
            std::ptr::write_bytes(p, !f, l.size());
        }
        System.dealloc(p, l);
    }
    unsafe fn realloc(&self, p: *mut u8, l: Layout, new_size: usize) -> *mut u8 {
        let f = HEAP_FILL.load(Ordering::Relaxed);
        if f == 0 && !in_arena(p) && !(new_size >= GUARD_MIN && GUARD_MODE.load(Ordering::Relaxed) != 0) {
            return System.realloc(p, l, new_size);
        }
        // move always, so that the old block is poisoned and the grown tail is filled
        let nl = Layout::from_size_align_unchecked(new_size, l.align());
        let np = self.alloc(nl);
        if !np.is_null() {
            std::ptr::copy_nonoverlapping(p, np, l.size().min(new_size));
            self.dealloc(p, l);
        }
        np
    }
}

// ------------------------------------------------------------------ logger
pub const LOG_OFF: u8 = 0; // installed, does nothing
pub const LOG_COUNT: u8 = 1;
pub const LOG_PANIC: u8 = 2;
pub const LOG_REENTER: u8 = 3;
pub const LOG_YIELD: u8 = 4;
/// the logger reports `enabled() == false` for everything (what `log_enabled!` observes)
pub const LOG_DISABLED: u8 = 5;
pub static LOG_MODE: AtomicU8 = AtomicU8::new(LOG_OFF);
pub static LOG_CALLS: AtomicU64 = AtomicU64::new(0);
pub static LOG_PANICS: AtomicU64 = AtomicU64::new(0);
pub static LOG_REENTRIES: AtomicU64 = AtomicU64::new(0);
pub static LOG_YIELDS: AtomicU64 = AtomicU64::new(0);
pub static LOG_REENTER_BAD: AtomicU64 = AtomicU64::new(0);
pub static LOG_DISABLED_SETS: AtomicU64 = AtomicU64::new(0);

thread_local! {
    static IN_LOGGER: Cell<bool> = const { Cell::new(false) };
}

pub struct SimLogger;
pub static LOGGER: SimLogger = SimLogger;

impl log::Log for SimLogger {
    fn enabled(&self, _: &log::Metadata) -> bool {
        LOG_MODE.load(Ordering::Relaxed) != LOG_DISABLED
    }
    fn log(&self, _rec: &log::Record) {
        if LOG_MODE.load(Ordering::Relaxed) == LOG_DISABLED {
            return;
        }
        LOG_CALLS.fetch_add(1, Ordering::Relaxed);
        if IN_LOGGER.with(Cell::get) {
            return;
        }
        match LOG_MODE.load(Ordering::Relaxed) {
            LOG_PANIC => {
                LOG_PANICS.fetch_add(1, Ordering::Relaxed);
                panic!("SIM-LOGGER-PANIC injected by the simulated logger");
            }
            LOG_REENTER => {
                IN_LOGGER.with(|c| c.set(true));
                LOG_REENTRIES.fetch_add(1, Ordering::Relaxed);
                let ok = crate::exec::reentrant_probe();
                IN_LOGGER.with(|c| c.set(false));
                if !ok {
                    LOG_REENTER_BAD.fetch_add(1, Ordering::Relaxed);
                }
            }
            LOG_YIELD => {
                LOG_YIELDS.fetch_add(1, Ordering::Relaxed);
                crate::sched::yield_here("logger", true);
            }
            _ => {}
        }
    }
    fn flush(&self) {}
}

pub fn level_of(i: u64) -> log::LevelFilter {
    match i {
        0 => log::LevelFilter::Off,
        1 => log::LevelFilter::Error,
        2 => log::LevelFilter::Warn,
        3 => log::LevelFilter::Info,
        4 => log::LevelFilter::Debug,
        _ => log::LevelFilter::Trace,
    }
}
