//! Fault seams the simulator owns: heap contents (global allocator) and the logger.

use std::alloc::{GlobalAlloc, Layout, System};
use std::cell::Cell;
use std::sync::atomic::{AtomicU64, AtomicU8, Ordering};

// ------------------------------------------------------------------ heap
/// Fill byte for fresh blocks (freed blocks get its complement). 0 = off.
pub static HEAP_FILL: AtomicU8 = AtomicU8::new(0);
pub static HEAP_FILLED_BLOCKS: AtomicU64 = AtomicU64::new(0);

#[cfg_attr(miri, allow(dead_code))]
pub struct FillAlloc;
// SAFETY: forwards to `System`; additionally writes into blocks it has just obtained from, or is
// about to return to, `System` — memory this allocator owns at that moment.
unsafe impl GlobalAlloc for FillAlloc {
    unsafe fn alloc(&self, l: Layout) -> *mut u8 {
        let p = System.alloc(l);
        let f = HEAP_FILL.load(Ordering::Relaxed);
        if f != 0 && !p.is_null() {
            std::ptr::write_bytes(p, f, l.size());
            HEAP_FILLED_BLOCKS.fetch_add(1, Ordering::Relaxed);
        }
        p
    }
    unsafe fn alloc_zeroed(&self, l: Layout) -> *mut u8 {
        System.alloc_zeroed(l)
    }
    unsafe fn dealloc(&self, p: *mut u8, l: Layout) {
        let f = HEAP_FILL.load(Ordering::Relaxed);
        if f != 0 {
            std::ptr::write_bytes(p, !f, l.size());
        }
        System.dealloc(p, l);
    }
    unsafe fn realloc(&self, p: *mut u8, l: Layout, new_size: usize) -> *mut u8 {
        let f = HEAP_FILL.load(Ordering::Relaxed);
        if f == 0 {
            return System.realloc(p, l, new_size);
        }
        // move always, so that the old block is poisoned and the grown tail is filled
        let nl = Layout::from_size_align_unchecked(new_size, l.align());
        let np = self.alloc(nl);
        if !np.is_null() {
            std::ptr::copy_nonoverlapping(p, np, l.size().min(new_size));
            self.dealloc(p, l);
        }
        np
    }
}

// ------------------------------------------------------------------ logger
pub const LOG_OFF: u8 = 0; // installed, does nothing
pub const LOG_COUNT: u8 = 1;
pub const LOG_PANIC: u8 = 2;
pub const LOG_REENTER: u8 = 3;
pub const LOG_YIELD: u8 = 4;
/// the logger reports `enabled() == false` for everything (what `log_enabled!` observes)
pub const LOG_DISABLED: u8 = 5;
pub static LOG_MODE: AtomicU8 = AtomicU8::new(LOG_OFF);
pub static LOG_CALLS: AtomicU64 = AtomicU64::new(0);
pub static LOG_PANICS: AtomicU64 = AtomicU64::new(0);
pub static LOG_REENTRIES: AtomicU64 = AtomicU64::new(0);
pub static LOG_YIELDS: AtomicU64 = AtomicU64::new(0);
pub static LOG_REENTER_BAD: AtomicU64 = AtomicU64::new(0);
pub static LOG_DISABLED_SETS: AtomicU64 = AtomicU64::new(0);

thread_local! {
    static IN_LOGGER: Cell<bool> = const { Cell::new(false) };
}

pub struct SimLogger;
pub static LOGGER: SimLogger = SimLogger;

impl log::Log for SimLogger {
    fn enabled(&self, _: &log::Metadata) -> bool {
        LOG_MODE.load(Ordering::Relaxed) != LOG_DISABLED
    }
    fn log(&self, _rec: &log::Record) {
        if LOG_MODE.load(Ordering::Relaxed) == LOG_DISABLED {
            return;
        }
        LOG_CALLS.fetch_add(1, Ordering::Relaxed);
        if IN_LOGGER.with(Cell::get) {
            return;
        }
        match LOG_MODE.load(Ordering::Relaxed) {
            LOG_PANIC => {
                LOG_PANICS.fetch_add(1, Ordering::Relaxed);
                panic!("SIM-LOGGER-PANIC injected by the simulated logger");
            }
            LOG_REENTER => {
                IN_LOGGER.with(|c| c.set(true));
                LOG_REENTRIES.fetch_add(1, Ordering::Relaxed);
                let ok = crate::exec::reentrant_probe();
                IN_LOGGER.with(|c| c.set(false));
                if !ok {
                    LOG_REENTER_BAD.fetch_add(1, Ordering::Relaxed);
                }
            }
            LOG_YIELD => {
                LOG_YIELDS.fetch_add(1, Ordering::Relaxed);
                crate::sched::yield_here("logger", true);
            }
            _ => {}
        }
    }
    fn flush(&self) {}
}

pub fn level_of(i: u64) -> log::LevelFilter {
    match i {
        0 => log::LevelFilter::Off,
        1 => log::LevelFilter::Error,
        2 => log::LevelFilter::Warn,
        3 => log::LevelFilter::Info,
        4 => log::LevelFilter::Debug,
        _ => log::LevelFilter::Trace,
    }
}
