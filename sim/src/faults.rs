//! Fault seams the simulator owns: heap contents (global allocator) and the logger.

use std::alloc::{GlobalAlloc, Layout, System};
use std::cell::Cell;
use std::sync::atomic::{AtomicU64, AtomicU8, Ordering};

// ------------------------------------------------------------------ heap
/// Fill byte for fresh blocks (freed blocks get its complement). 0 = off.
pub static HEAP_FILL: AtomicU8 = AtomicU8::new(0);
pub static HEAP_FILLED_BLOCKS: AtomicU64 = AtomicU64::new(0);

#[cfg_attr(miri, allow(dead_code))]
/// Guard mode (per-run knob): allocations of at least `GUARD_MIN` bytes are placed at the END of
/// their own page range inside a reserved arena, directly in front of inaccessible pages, and
/// are made inaccessible again when freed. A read or write past the end of a large buffer - by
/// any means, raw pointers included - or a use after free then kills the session with SIGSEGV
/// natively, at full speed and for frames far too large for Miri; the driver reports a session
/// killed by a signal as I1 (C07). Small allocations are left to the hooks, to std's
/// debug-assertion checks and to Miri.
pub static GUARD_MODE: AtomicU8 = AtomicU8::new(0);
pub static GUARDED_BLOCKS: AtomicU64 = AtomicU64::new(0);
const GUARD_MIN: usize = 1024;
const PAGE: usize = 4096;
const GUARD_LEN: usize = 64 * 1024;
const ARENA_LEN: usize = 1 << 39; // 512 GiB of address space, never committed
static ARENA_BASE: std::sync::atomic::AtomicUsize = std::sync::atomic::AtomicUsize::new(0);
static ARENA_NEXT: std::sync::atomic::AtomicUsize = std::sync::atomic::AtomicUsize::new(0);

extern "C" {
    fn mmap(addr: *mut u8, len: usize, prot: i32, flags: i32, fd: i32, off: i64) -> *mut u8;
    fn mprotect(addr: *mut u8, len: usize, prot: i32) -> i32;
}
const PROT_NONE: i32 = 0;
const PROT_RW: i32 = 3;
const MAP_PRIVATE: i32 = 2;
const MAP_FIXED: i32 = 0x10;
const MAP_ANONYMOUS: i32 = 0x20;
const MAP_NORESERVE: i32 = 0x4000;

fn arena_base() -> usize {
    let b = ARENA_BASE.load(Ordering::Acquire);
    if b != 0 {
        return if b == usize::MAX { 0 } else { b };
    }
    // SAFETY: reserving fresh inaccessible address space; no existing mapping is touched
    let p = unsafe { mmap(std::ptr::null_mut(), ARENA_LEN, PROT_NONE, MAP_PRIVATE | MAP_ANONYMOUS | MAP_NORESERVE, -1, 0) } as usize;
    let got = if p == usize::MAX || p == 0 { usize::MAX } else { p };
    match ARENA_BASE.compare_exchange(0, got, Ordering::AcqRel, Ordering::Acquire) {
        Ok(_) => {
            if got != usize::MAX {
                ARENA_NEXT.store(got, Ordering::Release);
            }
            if got == usize::MAX {
                0
            } else {
                got
            }
        }
        Err(other) => {
            // somebody else reserved first; our reservation stays unused (address space only)
            if other == usize::MAX {
                0
            } else {
                other
            }
        }
    }
}
fn in_arena(p: *mut u8) -> bool {
    let b = ARENA_BASE.load(Ordering::Acquire);
    b != 0 && b != usize::MAX && (p as usize) >= b && (p as usize) < b + ARENA_LEN
}
/// The pages a guarded block occupies, derived from (address, size) alone so that allocation and
/// release agree exactly and no accessible page is ever left behind.
fn block_pages(start: usize, size: usize) -> (usize, usize) {
    (start & !(PAGE - 1), (start + size + PAGE - 1) & !(PAGE - 1))
}

fn guarded_alloc(l: Layout) -> *mut u8 {
    let base = arena_base();
    if base == 0 || l.align() > PAGE || l.size() == 0 {
        return std::ptr::null_mut();
    }
    let span = (l.size() + l.align() + PAGE - 1) / PAGE * PAGE + GUARD_LEN;
    // wait until the first reserver has published the bump pointer
    while ARENA_NEXT.load(Ordering::Acquire) == 0 {
        std::hint::spin_loop();
    }
    let at = ARENA_NEXT.fetch_add(span, Ordering::AcqRel);
    if at + span > base + ARENA_LEN {
        return std::ptr::null_mut(); // arena used up: fall back to the system allocator
    }
    // mode 1: the block ends where the guard begins (over-runs fault); mode 2: the block starts
    // right behind the previous block's guard (under-runs fault)
    let start = if GUARD_MODE.load(Ordering::Relaxed) == 2 { at } else { ((at + span - GUARD_LEN) - l.size()) & !(l.align() - 1) };
    let (lo, hi) = block_pages(start, l.size());
    // SAFETY: [lo, hi) lies inside the span just taken from our own reserved arena
    if unsafe { mprotect(lo as *mut u8, hi - lo, PROT_RW) } != 0 {
        return std::ptr::null_mut(); // e.g. the mapping-count limit: fall back to the system allocator
    }
    GUARDED_BLOCKS.fetch_add(1, Ordering::Relaxed);
    start as *mut u8
}
fn guarded_free(p: *mut u8, l: Layout) {
    let (lo, hi) = block_pages(p as usize, l.size());
    // give the memory back and leave the range inaccessible for good (use after free faults)
    // SAFETY: exactly the pages `guarded_alloc` made accessible for this block, inside our arena
    unsafe {
        let _ = mmap(lo as *mut u8, hi - lo, PROT_NONE, MAP_PRIVATE | MAP_ANONYMOUS | MAP_NORESERVE | MAP_FIXED, -1, 0);
    }
}

fn guard_on() -> bool {
    matches!(GUARD_MODE.load(Ordering::Relaxed), 1 | 2)
}

// ---- recycle mode (GUARD_MODE == 3): eager reuse of freed blocks
/// Freed blocks of 16 bytes to 1 MiB are parked in a table instead of going back to the system
/// allocator, and the next allocation of the same size and alignment gets the most recently
/// freed one. For correct code this is invisible. For code that keeps a pointer to storage it no
/// longer owns (a dangling `Vec` left behind by an error path, a buffer returned to a pool by a
/// `Drop` while something still points at it) it makes the consequence as visible as it can be
/// without a crash: the stale owner's writes land in whatever *living* object got the block next
/// - which the retention invariant I2 then reports -, a second free of a parked block is counted
/// instead of aborting inside malloc, and a parked block whose free-pattern was disturbed is
/// counted as a write after free. The last two are I1 (C07).
pub static RECYCLED_BLOCKS: AtomicU64 = AtomicU64::new(0);
pub static DOUBLE_FREES: AtomicU64 = AtomicU64::new(0);
pub static WRITES_AFTER_FREE: AtomicU64 = AtomicU64::new(0);
const RB: usize = 64;
const RE: usize = 16;
#[derive(Clone, Copy)]
struct Parked {
    ptr: usize,
    size: usize,
    align: usize,
    /// byte the block was filled with when parked (0 = not filled)
    fill: u8,
}
const NOPARK: Parked = Parked { ptr: 0, size: 0, align: 0, fill: 0 };
struct Table {
    e: [[Parked; RE]; RB],
    n: [usize; RB],
}
static RLOCK: std::sync::atomic::AtomicBool = std::sync::atomic::AtomicBool::new(false);
static mut RTABLE: Table = Table { e: [[NOPARK; RE]; RB], n: [0; RB] };

fn recycle_on() -> bool {
    GUARD_MODE.load(Ordering::Relaxed) == 3
}
fn recyclable(l: Layout) -> bool {
    l.size() >= 16 && l.size() <= (1 << 20)
}
fn bucket(l: Layout) -> usize {
    (l.size().wrapping_mul(0x9e37_79b9) >> 7 ^ l.align()) % RB
}
/// Runs `f` on the table under the spin lock. `f` must not allocate.
fn with_table<R>(f: impl FnOnce(&mut Table) -> R) -> R {
    while RLOCK.compare_exchange_weak(false, true, Ordering::Acquire, Ordering::Relaxed).is_err() {
        std::hint::spin_loop();
    }
    // SAFETY: RTABLE is only ever touched here, under RLOCK
    let r = f(unsafe { &mut *std::ptr::addr_of_mut!(RTABLE) });
    RLOCK.store(false, Ordering::Release);
    r
}
/// most recently parked block of exactly this layout, if any
fn recycle_take(l: Layout) -> Option<Parked> {
    let b = bucket(l);
    with_table(|t| {
        let n = t.n[b];
        for i in (0..n).rev() {
            if t.e[b][i].size == l.size() && t.e[b][i].align == l.align() {
                let hit = t.e[b][i];
                for j in i..n - 1 {
                    t.e[b][j] = t.e[b][j + 1];
                }
                t.n[b] = n - 1;
                return Some(hit);
            }
        }
        None
    })
}
enum ParkResult {
    Parked(Option<Parked>),
    DoubleFree,
}
fn recycle_park(p: *mut u8, l: Layout, fill: u8) -> ParkResult {
    let b = bucket(l);
    with_table(|t| {
        // a block that is parked already is being freed a second time
        for bb in 0..RB {
            for i in 0..t.n[bb] {
                if t.e[bb][i].ptr == p as usize {
                    return ParkResult::DoubleFree;
                }
            }
        }
        let mut evicted = None;
        if t.n[b] == RE {
            evicted = Some(t.e[b][0]);
            for j in 0..RE - 1 {
                t.e[b][j] = t.e[b][j + 1];
            }
            t.n[b] = RE - 1;
        }
        t.e[b][t.n[b]] = Parked { ptr: p as usize, size: l.size(), align: l.align(), fill };
        t.n[b] += 1;
        ParkResult::Parked(evicted)
    })
}
/// Gives every parked block back to the system allocator (end of a run).
pub fn recycle_flush() {
    loop {
        let next = with_table(|t| {
            for b in 0..RB {
                if t.n[b] > 0 {
                    t.n[b] -= 1;
                    return Some(t.e[b][t.n[b]]);
                }
            }
            None
        });
        match next {
            // SAFETY: a parked block is a live System allocation of exactly this layout
            Some(k) => unsafe { System.dealloc(k.ptr as *mut u8, Layout::from_size_align_unchecked(k.size, k.align)) },
            None => break,
        }
    }
}
/// checks the free-pattern of a block coming out of the table
unsafe fn recycled_block_intact(k: Parked) -> bool {
    if k.fill == 0 {
        return true;
    }
    let s = std::slice::from_raw_parts(k.ptr as *const u8, k.size);
    s.iter().all(|b| *b == k.fill)
}

pub struct FillAlloc;
// SAFETY: forwards to `System`; additionally writes into blocks it has just obtained from, or is
// about to return to, `System` — memory this allocator owns at that moment.
unsafe impl GlobalAlloc for FillAlloc {
    unsafe fn alloc(&self, l: Layout) -> *mut u8 {
        if l.size() >= GUARD_MIN && guard_on() {
            let p = guarded_alloc(l);
            if !p.is_null() {
                let f = HEAP_FILL.load(Ordering::Relaxed);
                if f != 0 {
                    std::ptr::write_bytes(p, f, l.size());
                }
                return p;
            }
        }
        if recycle_on() && recyclable(l) {
            if let Some(k) = recycle_take(l) {
                if !recycled_block_intact(k) {
                    WRITES_AFTER_FREE.fetch_add(1, Ordering::Relaxed);
                }
                RECYCLED_BLOCKS.fetch_add(1, Ordering::Relaxed);
                let f = HEAP_FILL.load(Ordering::Relaxed);
                if f != 0 {
                    std::ptr::write_bytes(k.ptr as *mut u8, f, l.size());
                }
                return k.ptr as *mut u8;
            }
        }
        let p = System.alloc(l);
        let f = HEAP_FILL.load(Ordering::Relaxed);
        if f != 0 && !p.is_null() {
            std::ptr::write_bytes(p, f, l.size());
            HEAP_FILLED_BLOCKS.fetch_add(1, Ordering::Relaxed);
        }
        p
    }
    unsafe fn alloc_zeroed(&self, l: Layout) -> *mut u8 {
        if l.size() >= GUARD_MIN && guard_on() {
            let p = guarded_alloc(l);
            if !p.is_null() {
                return p; // fresh anonymous pages are zero
            }
        }
        if recycle_on() && recyclable(l) {
            if let Some(k) = recycle_take(l) {
                if !recycled_block_intact(k) {
                    WRITES_AFTER_FREE.fetch_add(1, Ordering::Relaxed);
                }
                RECYCLED_BLOCKS.fetch_add(1, Ordering::Relaxed);
                std::ptr::write_bytes(k.ptr as *mut u8, 0, l.size());
                return k.ptr as *mut u8;
            }
        }
        System.alloc_zeroed(l)
    }
    unsafe fn dealloc(&self, p: *mut u8, l: Layout) {
        if in_arena(p) {
            guarded_free(p, l);
            return;
        }
        let f = HEAP_FILL.load(Ordering::Relaxed);
        if recycle_on() && recyclable(l) {
            // pattern first, table second: once the block is in the table another thread may
            // take it at any moment
            let fill = if f != 0 { !f } else { 0 };
            if fill != 0 {
                std::ptr::write_bytes(p, fill, l.size());
            }
            match recycle_park(p, l, fill) {
                ParkResult::DoubleFree => {
                    DOUBLE_FREES.fetch_add(1, Ordering::Relaxed);
                }
                ParkResult::Parked(evicted) => {
                    if let Some(k) = evicted {
                        System.dealloc(k.ptr as *mut u8, Layout::from_size_align_unchecked(k.size, k.align));
                    }
                }
            }
            return;
        }
        if f != 0 {
            std::ptr::write_bytes(p, !f, l.size());
        }
        System.dealloc(p, l);
    }
    unsafe fn realloc(&self, p: *mut u8, l: Layout, new_size: usize) -> *mut u8 {
        let f = HEAP_FILL.load(Ordering::Relaxed);
        if f == 0 && !in_arena(p) && !(new_size >= GUARD_MIN && guard_on()) && !recycle_on() {
            return System.realloc(p, l, new_size);
        }
        // move always, so that the old block is poisoned and the grown tail is filled
        let nl = Layout::from_size_align_unchecked(new_size, l.align());
        let np = self.alloc(nl);
        if !np.is_null() {
            std::ptr::copy_nonoverlapping(p, np, l.size().min(new_size));
            self.dealloc(p, l);
        }
        np
    }
}

// ------------------------------------------------------------------ logger
pub const LOG_OFF: u8 = 0; // installed, does nothing
pub const LOG_COUNT: u8 = 1;
pub const LOG_PANIC: u8 = 2;
pub const LOG_REENTER: u8 = 3;
pub const LOG_YIELD: u8 = 4;
/// the logger reports `enabled() == false` for everything (what `log_enabled!` observes)
pub const LOG_DISABLED: u8 = 5;
pub static LOG_MODE: AtomicU8 = AtomicU8::new(LOG_OFF);
pub static LOG_CALLS: AtomicU64 = AtomicU64::new(0);
pub static LOG_PANICS: AtomicU64 = AtomicU64::new(0);
pub static LOG_REENTRIES: AtomicU64 = AtomicU64::new(0);
pub static LOG_YIELDS: AtomicU64 = AtomicU64::new(0);
pub static LOG_REENTER_BAD: AtomicU64 = AtomicU64::new(0);
pub static LOG_DISABLED_SETS: AtomicU64 = AtomicU64::new(0);

thread_local! {
    static IN_LOGGER: Cell<bool> = const { Cell::new(false) };
}

pub struct SimLogger;
pub static LOGGER: SimLogger = SimLogger;

impl log::Log for SimLogger {
    fn enabled(&self, _: &log::Metadata) -> bool {
        LOG_MODE.load(Ordering::Relaxed) != LOG_DISABLED
    }
    fn log(&self, _rec: &log::Record) {
        if LOG_MODE.load(Ordering::Relaxed) == LOG_DISABLED {
            return;
        }
        LOG_CALLS.fetch_add(1, Ordering::Relaxed);
        if IN_LOGGER.with(Cell::get) {
            return;
        }
        match LOG_MODE.load(Ordering::Relaxed) {
            LOG_PANIC => {
                LOG_PANICS.fetch_add(1, Ordering::Relaxed);
                panic!("SIM-LOGGER-PANIC injected by the simulated logger");
            }
            LOG_REENTER => {
                IN_LOGGER.with(|c| c.set(true));
                LOG_REENTRIES.fetch_add(1, Ordering::Relaxed);
                let ok = crate::exec::reentrant_probe();
                IN_LOGGER.with(|c| c.set(false));
                if !ok {
                    LOG_REENTER_BAD.fetch_add(1, Ordering::Relaxed);
                }
            }
            LOG_YIELD => {
                LOG_YIELDS.fetch_add(1, Ordering::Relaxed);
                crate::sched::yield_here("logger", true);
            }
            _ => {}
        }
    }
    fn flush(&self) {}
}

pub fn level_of(i: u64) -> log::LevelFilter {
    match i {
        0 => log::LevelFilter::Off,
        1 => log::LevelFilter::Error,
        2 => log::LevelFilter::Warn,
        3 => log::LevelFilter::Info,
        4 => log::LevelFilter::Debug,
        _ => log::LevelFilter::Trace,
    }
}
