//! Operation language of the simulator: explicit, self-contained operations that can be
//! generated from a seed, written to a trace file, edited by the minimiser and replayed.

use crate::rng::Rng;
use std::fmt::Write as _;
use yuvxyb::{ColorPrimaries as Cp, MatrixCoefficients as Mc, TransferCharacteristic as Tc};

// ---------------------------------------------------------------- metadata tables
// Index 0 is Unspecified in all three tables; the rest is every other enum value.
pub const MATS: [Mc; 15] = [
    Mc::Unspecified,
    Mc::BT709,
    Mc::BT470M,
    Mc::BT470BG,
    Mc::ST170M,
    Mc::ST240M,
    Mc::YCgCo,
    Mc::BT2020NonConstantLuminance,
    // chromaticity-derived / unusual but supported by the dispatch table
    Mc::Identity,
    Mc::BT2020ConstantLuminance,
    Mc::ChromaticityDerivedNonConstantLuminance,
    Mc::ChromaticityDerivedConstantLuminance,
    Mc::ST2085,
    Mc::ICtCp,
    Mc::Reserved,
];
pub const N_STD_MATS: u64 = 7; // indices 1..=7: the 7 standard matrices
pub const TRCS: [Tc; 19] = [
    Tc::Unspecified,
    Tc::BT1886,
    Tc::BT470M,
    Tc::BT470BG,
    Tc::ST170M,
    Tc::ST240M,
    Tc::Linear,
    Tc::Logarithmic100,
    Tc::Logarithmic316,
    Tc::XVYCC,
    Tc::SRGB,
    Tc::BT2020Ten,
    Tc::BT2020Twelve,
    Tc::PerceptualQuantizer,
    Tc::HybridLogGamma,
    // unsupported
    Tc::BT1361E,
    Tc::ST428,
    Tc::Reserved0,
    Tc::Reserved,
];
pub const N_SUP_TRCS: u64 = 14; // indices 1..=14
pub const PRIS: [Cp; 14] = [
    Cp::Unspecified,
    Cp::BT709,
    Cp::BT470M,
    Cp::BT470BG,
    Cp::ST170M,
    Cp::ST240M,
    Cp::Film,
    Cp::BT2020,
    Cp::P3DCI,
    Cp::P3Display,
    Cp::Tech3213,
    Cp::ST428,
    // unsupported
    Cp::Reserved0,
    Cp::Reserved,
];
pub const N_SUP_PRIS: u64 = 11; // indices 1..=11 (ST428 included: identity XYZ)

pub fn mat_index(m: Mc) -> u64 {
    MATS.iter().position(|x| *x == m).expect("matrix in table") as u64
}
pub fn trc_index(t: Tc) -> u64 {
    TRCS.iter().position(|x| *x == t).expect("transfer in table") as u64
}
pub fn pri_index(p: Cp) -> u64 {
    PRIS.iter().position(|x| *x == p).expect("primaries in table") as u64
}

// ---------------------------------------------------------------- slot classes
pub const CL_Y8: u64 = 0;
pub const CL_Y16: u64 = 1;
pub const CL_RGB: u64 = 2;
pub const CL_LIN: u64 = 3;
pub const CL_XYB: u64 = 4;
pub const CL_HSL: u64 = 5;
pub const N_CLASSES: u64 = 6;
pub fn slot_class(slot: u64) -> u64 {
    slot % N_CLASSES
}
pub fn class_name(c: u64) -> &'static str {
    ["Yuv<u8>", "Yuv<u16>", "Rgb", "LinearRgb", "Xyb", "Hsl"][c as usize]
}

// ---------------------------------------------------------------- ops
#[derive(Clone, Copy, Debug, PartialEq, Eq, Hash)]
pub enum Kind {
    NewYuv,
    NewFloat,
    Conv,
    Mutate,
    CloneTo,
    DropSlot,
    Rewrap,
    Read,
    Logger,
    Level,
}
impl Kind {
    pub fn name(self) -> &'static str {
        match self {
            Kind::NewYuv => "NewYuv",
            Kind::NewFloat => "NewFloat",
            Kind::Conv => "Conv",
            Kind::Mutate => "Mutate",
            Kind::CloneTo => "CloneTo",
            Kind::DropSlot => "DropSlot",
            Kind::Rewrap => "Rewrap",
            Kind::Read => "Read",
            Kind::Logger => "Logger",
            Kind::Level => "Level",
        }
    }
    pub fn parse(s: &str) -> Option<Self> {
        Some(match s {
            "NewYuv" => Kind::NewYuv,
            "NewFloat" => Kind::NewFloat,
            "Conv" => Kind::Conv,
            "Mutate" => Kind::Mutate,
            "CloneTo" => Kind::CloneTo,
            "DropSlot" => Kind::DropSlot,
            "Rewrap" => Kind::Rewrap,
            "Read" => Kind::Read,
            "Logger" => Kind::Logger,
            "Level" => Kind::Level,
            _ => return None,
        })
    }
}

/// Explicit YUV config (indices into the tables above).
#[derive(Clone, Copy, Debug, PartialEq, Eq, Hash, Default)]
pub struct CfgI {
    pub bd: u64,
    pub ssx: u64,
    pub ssy: u64,
    pub full: u64,
    pub mc: u64,
    pub tc: u64,
    pub cp: u64,
}
impl CfgI {
    pub fn to_cfg(self) -> yuvxyb::YuvConfig {
        yuvxyb::YuvConfig {
            bit_depth: self.bd as u8,
            subsampling_x: self.ssx as u8,
            subsampling_y: self.ssy as u8,
            full_range: self.full != 0,
            matrix_coefficients: MATS[self.mc as usize],
            transfer_characteristics: TRCS[self.tc as usize],
            color_primaries: PRIS[self.cp as usize],
        }
    }
    pub fn from_cfg(c: yuvxyb::YuvConfig) -> Self {
        Self {
            bd: u64::from(c.bit_depth),
            ssx: u64::from(c.subsampling_x),
            ssy: u64::from(c.subsampling_y),
            full: u64::from(c.full_range),
            mc: mat_index(c.matrix_coefficients),
            tc: trc_index(c.transfer_characteristics),
            cp: pri_index(c.color_primaries),
        }
    }
}

/// Conversions (`which` of a Conv op). `src`/`dst` give the slot classes.
#[derive(Clone, Copy, Debug)]
pub struct ConvSpec {
    pub name: &'static str,
    pub src: u64,
    pub dst: u64,
    pub by_ref: bool,
    /// needs a YuvConfig (true) / a (transfer, primaries) pair (false, see needs_tp)
    pub needs_cfg: bool,
    pub needs_tp: bool,
}
macro_rules! cs {
    ($n:expr, $s:expr, $d:expr, $r:expr, $c:expr, $t:expr) => {
        ConvSpec { name: $n, src: $s, dst: $d, by_ref: $r, needs_cfg: $c, needs_tp: $t }
    };
}
pub const CONVS: [ConvSpec; 34] = [
    cs!("Rgb::try_from(&Yuv<u8>)", CL_Y8, CL_RGB, true, false, false),
    cs!("Rgb::try_from(&Yuv<u16>)", CL_Y16, CL_RGB, true, false, false),
    cs!("LinearRgb::try_from(&Yuv<u8>)", CL_Y8, CL_LIN, true, false, false),
    cs!("LinearRgb::try_from(&Yuv<u16>)", CL_Y16, CL_LIN, true, false, false),
    cs!("Xyb::try_from(&Yuv<u8>)", CL_Y8, CL_XYB, true, false, false),
    cs!("Xyb::try_from(&Yuv<u16>)", CL_Y16, CL_XYB, true, false, false),
    cs!("Yuv::<u8>::try_from((&Rgb,cfg))", CL_RGB, CL_Y8, true, true, false),
    cs!("Yuv::<u16>::try_from((&Rgb,cfg))", CL_RGB, CL_Y16, true, true, false),
    cs!("Rgb::try_from(Yuv<u8>)", CL_Y8, CL_RGB, false, false, false),
    cs!("Rgb::try_from(Yuv<u16>)", CL_Y16, CL_RGB, false, false, false),
    cs!("LinearRgb::try_from(Yuv<u8>)", CL_Y8, CL_LIN, false, false, false),
    cs!("LinearRgb::try_from(Yuv<u16>)", CL_Y16, CL_LIN, false, false, false),
    cs!("Xyb::try_from(Yuv<u8>)", CL_Y8, CL_XYB, false, false, false),
    cs!("Xyb::try_from(Yuv<u16>)", CL_Y16, CL_XYB, false, false, false),
    cs!("LinearRgb::try_from(Rgb)", CL_RGB, CL_LIN, false, false, false),
    cs!("Xyb::try_from(Rgb)", CL_RGB, CL_XYB, false, false, false),
    cs!("Yuv::<u8>::try_from((Rgb,cfg))", CL_RGB, CL_Y8, false, true, false),
    cs!("Yuv::<u16>::try_from((Rgb,cfg))", CL_RGB, CL_Y16, false, true, false),
    cs!("Xyb::from(LinearRgb)", CL_LIN, CL_XYB, false, false, false),
    cs!("Hsl::from(LinearRgb)", CL_LIN, CL_HSL, false, false, false),
    cs!("Rgb::try_from((LinearRgb,t,p))", CL_LIN, CL_RGB, false, false, true),
    cs!("Yuv::<u8>::try_from((LinearRgb,cfg))", CL_LIN, CL_Y8, false, true, false),
    cs!("Yuv::<u16>::try_from((LinearRgb,cfg))", CL_LIN, CL_Y16, false, true, false),
    cs!("LinearRgb::from(Xyb)", CL_XYB, CL_LIN, false, false, false),
    cs!("Rgb::try_from((Xyb,t,p))", CL_XYB, CL_RGB, false, false, true),
    cs!("Yuv::<u8>::try_from((Xyb,cfg))", CL_XYB, CL_Y8, false, true, false),
    cs!("Yuv::<u16>::try_from((Xyb,cfg))", CL_XYB, CL_Y16, false, true, false),
    cs!("LinearRgb::from(Hsl)", CL_HSL, CL_LIN, false, false, false),
    // by-value forms that the API offers for borrowed-source conversions too are above;
    // the remaining entries are clones of frequent paths so that generation weights them up
    cs!("Rgb::try_from(&Yuv<u8>) #2", CL_Y8, CL_RGB, true, false, false),
    cs!("Rgb::try_from(&Yuv<u16>) #2", CL_Y16, CL_RGB, true, false, false),
    cs!("Xyb::try_from(&Yuv<u8>) #2", CL_Y8, CL_XYB, true, false, false),
    cs!("Yuv::<u8>::try_from((&Rgb,cfg)) #2", CL_RGB, CL_Y8, true, true, false),
    cs!("Yuv::<u16>::try_from((&Rgb,cfg)) #2", CL_RGB, CL_Y16, true, true, false),
    cs!("Yuv::<u16>::try_from((Xyb,cfg)) #2", CL_XYB, CL_Y16, false, true, false),
];
/// canonical index of a conversion (aliases "#2" map to the first entry of the same name)
pub fn conv_canon(which: u64) -> u64 {
    let n = CONVS[which as usize].name.trim_end_matches(" #2");
    CONVS.iter().position(|c| c.name == n).expect("canonical conv") as u64
}

/// One operation. Field meaning depends on `k`; unused fields are 0.
#[derive(Clone, Debug, PartialEq, Eq, Hash)]
pub struct Op {
    pub k: Kind,
    /// target slot (NewYuv/NewFloat/Conv dst/CloneTo dst) or the slot operated on
    pub slot: u64,
    /// source slot (Conv, CloneTo)
    pub src: u64,
    /// NewYuv: 0=u8 1=u16 (must agree with slot class); NewFloat: class; Conv: index in CONVS;
    /// Logger: mode; Level: level; Mutate: number of writes
    pub which: u64,
    /// NewYuv: [lw, lh, cw1, ch1, xdec1, ydec1, cw2, ch2, xdec2, ydec2, xpad0, ypad0, xpad1, ypad1, xpad2, ypad2]
    /// NewFloat: [len, w, h]
    pub geo: [u64; 16],
    pub cfg: CfgI,
    /// NewFloat / Conv with (t,p): transfer and primaries indices; NewYuv: (xdec, ydec) of the LUMA plane
    pub t: u64,
    pub p: u64,
    pub dataseed: u64,
    /// NewYuv: 0 any valid code, 1 legal (limited) range, 2 one out-of-range visible sample, 3 extremes,
    /// 5 several out-of-range visible samples (always including the one mode 2 would have),
    /// 6 two to four EQUAL out-of-range samples, 7 every sample the same out-of-range value
    /// NewFloat: 0 unit cube, 1 [-0.5,1.5], 2 special values, 3 HSL ranges, 4 arbitrary bit patterns,
    /// 6 runs of repeated pixels from a small palette, zeros changing sign inside a run,
    /// 7 grey pixels on quantisation boundaries (k + 0.5 codes) +- 2 ulp
    pub datamode: u64,
    /// NewYuv: 0 = leave v_frame's default padding (128), else seed for padding contents
    pub padseed: u64,
    /// Conv by value: 1 = consume the pooled object, 0 = convert a clone; CloneTo: 1 = clone_from;
    /// NewYuv: 1 = planes built with Plane::from_slice (tight rows), paddings ignored; 2 = windows
    /// into larger packed buffers (geo[10..16] = x/y origin per plane)
    pub consume: u64,
}

impl Op {
    pub fn blank(k: Kind) -> Self {
        Op { k, slot: 0, src: 0, which: 0, geo: [0; 16], cfg: CfgI::default(), t: 0, p: 0, dataseed: 0, datamode: 0, padseed: 0, consume: 0 }
    }

    pub fn to_line(&self) -> String {
        let mut s = String::new();
        let _ = write!(s, "op {} slot={} src={} which={}", self.k.name(), self.slot, self.src, self.which);
        let _ = write!(s, " geo=");
        for (i, g) in self.geo.iter().enumerate() {
            let _ = write!(s, "{}{}", if i == 0 { "" } else { "," }, g);
        }
        let c = self.cfg;
        let _ = write!(s, " cfg={},{},{},{},{},{},{}", c.bd, c.ssx, c.ssy, c.full, c.mc, c.tc, c.cp);
        let _ = write!(
            s,
            " t={} p={} dataseed={} datamode={} padseed={} consume={}",
            self.t, self.p, self.dataseed, self.datamode, self.padseed, self.consume
        );
        s
    }

    pub fn parse_line(line: &str) -> Result<Self, String> {
        let mut it = line.split_whitespace();
        if it.next() != Some("op") {
            return Err(format!("not an op line: {line}"));
        }
        let k = Kind::parse(it.next().ok_or("missing kind")?).ok_or_else(|| format!("bad kind in {line}"))?;
        let mut op = Op::blank(k);
        for kv in it {
            let (key, val) = kv.split_once('=').ok_or_else(|| format!("bad token {kv}"))?;
            let nums = || -> Result<Vec<u64>, String> {
                val.split(',').map(|x| x.parse::<u64>().map_err(|e| format!("{kv}: {e}"))).collect()
            };
            match key {
                "slot" => op.slot = nums()?[0],
                "src" => op.src = nums()?[0],
                "which" => op.which = nums()?[0],
                "geo" => {
                    let v = nums()?;
                    if v.len() != 16 {
                        return Err(format!("geo needs 16 numbers: {kv}"));
                    }
                    op.geo.copy_from_slice(&v);
                }
                "cfg" => {
                    let v = nums()?;
                    if v.len() != 7 {
                        return Err(format!("cfg needs 7 numbers: {kv}"));
                    }
                    op.cfg = CfgI { bd: v[0], ssx: v[1], ssy: v[2], full: v[3], mc: v[4], tc: v[5], cp: v[6] };
                }
                "t" => op.t = nums()?[0],
                "p" => op.p = nums()?[0],
                "dataseed" => op.dataseed = nums()?[0],
                "datamode" => op.datamode = nums()?[0],
                "padseed" => op.padseed = nums()?[0],
                "consume" => op.consume = nums()?[0],
                _ => return Err(format!("unknown key {key}")),
            }
        }
        op.validate()?;
        Ok(op)
    }

    /// Structural validity (so a hand-edited or shrunk trace cannot index out of the tables).
    pub fn validate(&self) -> Result<(), String> {
        let c = self.cfg;
        let bad = |m: &str| Err(format!("invalid op ({m}): {}", self.to_line()));
        if c.mc >= MATS.len() as u64 || c.tc >= TRCS.len() as u64 || c.cp >= PRIS.len() as u64 {
            return bad("cfg enum index");
        }
        if self.t >= TRCS.len() as u64 || self.p >= PRIS.len() as u64 {
            return bad("t/p index");
        }
        if self.slot >= 64 || self.src >= 64 {
            return bad("slot");
        }
        match self.k {
            Kind::NewYuv => {
                if !(8..=16).contains(&c.bd) || c.ssx > 2 || c.ssy > 2 {
                    return bad("bit depth / subsampling outside the property's range");
                }
                if self.which > 1 || slot_class(self.slot) != self.which {
                    return bad("sample type vs slot class");
                }
                let g = &self.geo;
                if [g[0], g[1], g[2], g[3], g[6], g[7]].iter().any(|d| *d == 0 || *d > 200_000) {
                    return bad("plane dimension");
                }
                if [g[4], g[5], g[8], g[9], self.t, self.p].iter().any(|d| *d > 2) || g[10..16].iter().any(|d| *d > 40) {
                    return bad("decimation / padding");
                }
            }
            Kind::NewFloat => {
                if !(CL_RGB..=CL_HSL).contains(&self.which) || slot_class(self.slot) != self.which {
                    return bad("float class vs slot class");
                }
                if self.geo[0] > 1 << 22 || self.geo[1] > 200_000 || self.geo[2] > 200_000 {
                    return bad("float image size");
                }
            }
            Kind::Conv => {
                if self.which >= CONVS.len() as u64 {
                    return bad("conversion index");
                }
                let cs = CONVS[self.which as usize];
                if slot_class(self.src) != cs.src || slot_class(self.slot) != cs.dst {
                    return bad("conversion vs slot classes");
                }
                if cs.needs_cfg && (!(8..=16).contains(&c.bd) || c.ssx > 2 || c.ssy > 2) {
                    return bad("bit depth / subsampling outside the property's range");
                }
            }
            Kind::Mutate | Kind::Rewrap => {
                if !(CL_RGB..=CL_HSL).contains(&slot_class(self.slot)) {
                    return bad("mutation of a non-float slot");
                }
            }
            Kind::CloneTo => {
                if slot_class(self.src) != slot_class(self.slot) {
                    return bad("clone across classes");
                }
            }
            Kind::Logger => {
                if self.which > 5 {
                    return bad("logger mode");
                }
            }
            Kind::Level => {
                if self.which > 5 {
                    return bad("log level");
                }
            }
            Kind::DropSlot | Kind::Read => {}
        }
        Ok(())
    }
}

// ---------------------------------------------------------------- traces
#[derive(Clone, Debug, PartialEq, Eq)]
pub struct Knobs {
    pub slots: u64,
    /// percent probability of handing the baton over at an in-conversion yield point
    pub preempt: u64,
    /// heap fill byte for fresh blocks (0 = allocator fill disabled for this run)
    pub heap: u64,
    /// fresh-process references to take in this run
    pub iso: u64,
    /// 1 = repeat every conversion at once on the same thread (I3a). Off in half of the runs:
    /// the repetition is itself a call, it turns every first use into "miss, then hit" and so
    /// keeps state that needs a run of *different* calls (an LRU filling up) from ever arising
    pub repeat: u64,
    /// rounds of the free-running stress phase after the run (0 = none): the run's conversions are
    /// re-executed concurrently by real, unscheduled threads and compared with their quiescent
    /// results. A scout for races inside added code; NOT deterministic, see DESIGN.md §2.8
    pub stress: u64,
    /// 1 = guard mode of the allocator: large buffers end at an inaccessible page and become
    /// inaccessible when freed (faults.rs)
    pub guard: u64,
    /// scenario tag (informational): 0 random mix, 1 contention palette, 2 sweep, 3 C07 battery, 4 C12 clone family
    pub scn: u64,
}

impl Default for Knobs {
    fn default() -> Self {
        Knobs { slots: 0, preempt: 0, heap: 0, iso: 0, repeat: 1, stress: 0, guard: 0, scn: 0 }
    }
}

#[derive(Clone, Debug, Default, PartialEq, Eq)]
pub struct RunTrace {
    pub seed: u64,
    pub knobs: Knobs,
    /// executed by the coordinating thread before the simulated threads start
    pub pre: Vec<Op>,
    pub threads: Vec<Vec<Op>>,
    /// recorded scheduling decisions (thread chosen at each yield point); empty = draw from seed
    pub sched: Vec<u8>,
}

#[derive(Clone, Debug, Default, PartialEq, Eq)]
pub struct Trace {
    pub profile: String,
    pub runs: Vec<RunTrace>,
}

impl Trace {
    pub fn to_text(&self) -> String {
        let mut s = String::new();
        s.push_str("dsim-trace v1\n");
        let _ = writeln!(s, "profile {}", self.profile);
        for r in &self.runs {
            let k = &r.knobs;
            let _ = writeln!(s, "run seed={} slots={} preempt={} heap={} iso={} repeat={} stress={} guard={} scn={}", r.seed, k.slots, k.preempt, k.heap, k.iso, k.repeat, k.stress, k.guard, k.scn);
            s.push_str("pre\n");
            for op in &r.pre {
                s.push_str(&op.to_line());
                s.push('\n');
            }
            for (i, t) in r.threads.iter().enumerate() {
                let _ = writeln!(s, "thread {i}");
                for op in t {
                    s.push_str(&op.to_line());
                    s.push('\n');
                }
            }
            s.push_str("sched");
            for c in &r.sched {
                let _ = write!(s, " {c}");
            }
            s.push('\n');
            s.push_str("end\n");
        }
        s
    }

    pub fn parse(text: &str) -> Result<Self, String> {
        let mut lines = text.lines().map(str::trim).filter(|l| !l.is_empty() && !l.starts_with('#'));
        if lines.next() != Some("dsim-trace v1") {
            return Err("missing header 'dsim-trace v1'".into());
        }
        let mut tr = Trace::default();
        let mut cur: Option<RunTrace> = None;
        // where ops go: None = pre, Some(i) = thread i
        let mut target: Option<usize> = None;
        for l in lines {
            let first = l.split_whitespace().next().unwrap_or("");
            match first {
                "profile" => tr.profile = l.split_whitespace().nth(1).unwrap_or("").to_string(),
                "run" => {
                    if cur.is_some() {
                        return Err("run without end".into());
                    }
                    let mut r = RunTrace::default();
                    for kv in l.split_whitespace().skip(1) {
                        let (k, v) = kv.split_once('=').ok_or_else(|| format!("bad token {kv}"))?;
                        let v: u64 = v.parse().map_err(|e| format!("{kv}: {e}"))?;
                        match k {
                            "seed" => r.seed = v,
                            "slots" => r.knobs.slots = v,
                            "preempt" => r.knobs.preempt = v,
                            "heap" => r.knobs.heap = v,
                            "iso" => r.knobs.iso = v,
                            "repeat" => r.knobs.repeat = v,
                            "stress" => r.knobs.stress = v,
                            "scn" => r.knobs.scn = v,
                            "guard" => r.knobs.guard = v,
                            _ => return Err(format!("unknown run key {k}")),
                        }
                    }
                    if r.knobs.slots == 0 || r.knobs.slots > 64 || r.knobs.preempt > 100 || r.knobs.heap > 255 || r.knobs.guard > 3 {
                        return Err(format!("bad knobs: {l}"));
                    }
                    cur = Some(r);
                    target = None;
                }
                "pre" => target = None,
                "thread" => {
                    let r = cur.as_mut().ok_or("thread outside run")?;
                    r.threads.push(Vec::new());
                    if r.threads.len() > 8 {
                        return Err("more than 8 threads".into());
                    }
                    target = Some(r.threads.len() - 1);
                }
                "op" => {
                    let r = cur.as_mut().ok_or("op outside run")?;
                    let op = Op::parse_line(l)?;
                    if op.slot >= r.knobs.slots || op.src >= r.knobs.slots {
                        return Err(format!("slot out of range: {l}"));
                    }
                    match target {
                        None => r.pre.push(op),
                        Some(i) => r.threads[i].push(op),
                    }
                }
                "sched" => {
                    let r = cur.as_mut().ok_or("sched outside run")?;
                    for c in l.split_whitespace().skip(1) {
                        r.sched.push(c.parse().map_err(|e| format!("sched {c}: {e}"))?);
                    }
                }
                "end" => {
                    tr.runs.push(cur.take().ok_or("end without run")?);
                }
                _ => return Err(format!("unknown line: {l}")),
            }
        }
        if cur.is_some() {
            return Err("unterminated run".into());
        }
        Ok(tr)
    }
}

// ---------------------------------------------------------------- generation
/// Workload profile: biases the mix towards the property a check is about. All invariants are
/// evaluated under every profile; the profile only shifts where the effort goes.
#[derive(Clone, Copy, Debug, PartialEq, Eq)]
pub enum Profile {
    /// C07: perturbed geometries, special floats, every curve, many conversions
    Safety,
    /// C11: threads, preemption, padding, repeated conversions of shared sources
    Independence,
    /// C12: constructors (well- and ill-formed), mutation, clone, rewrap, reads
    Constructors,
    /// C15: Unspecified metadata, threshold sizes, logger faults
    Metadata,
}
impl Profile {
    pub fn name(self) -> &'static str {
        match self {
            Profile::Safety => "safety",
            Profile::Independence => "independence",
            Profile::Constructors => "constructors",
            Profile::Metadata => "metadata",
        }
    }
    pub fn parse(s: &str) -> Option<Self> {
        Some(match s {
            "safety" => Profile::Safety,
            "independence" => Profile::Independence,
            "constructors" => Profile::Constructors,
            "metadata" => Profile::Metadata,
            _ => return None,
        })
    }
    pub fn for_property(p: &str) -> Option<Self> {
        Some(match p {
            "C07" => Profile::Safety,
            "C11" => Profile::Independence,
            "C12" => Profile::Constructors,
            "C15" => Profile::Metadata,
            _ => return None,
        })
    }
}

struct Gen<'a> {
    r: &'a mut Rng,
    prof: Profile,
    slots: u64,
    /// size class of this run: typical max dimension
    maxdim: u64,
    /// contention scenario: all configs / (t,p) pairs of the run come from this small palette, so
    /// that concurrently running and successive conversions keep switching between a few
    /// *different* configurations (what a configuration-keyed cache would have to get right)
    palette: Vec<CfgI>,
    /// sweep scenario: walk through a long palette in order (with occasional returns to an
    /// earlier entry) instead of drawing from it at random: a long run of *distinct*
    /// configurations followed by a revisit is what fills and evicts bounded caches
    sweep: bool,
    sweep_pos: u64,
    /// slots that probably hold an object when the op being generated runs (generation-time
    /// guess: constructors and conversions are assumed to succeed, other threads are ignored)
    populated: Vec<bool>,
}

impl Gen<'_> {
    fn slot_of_class(&mut self, class: u64) -> u64 {
        // slots of class c: c, c+6, c+12, ... below self.slots
        let n = (self.slots + N_CLASSES - 1 - class) / N_CLASSES;
        class + N_CLASSES * self.r.below(n.max(1))
    }
    fn palette_pick(&mut self) -> CfgI {
        let n = self.palette.len() as u64;
        if !self.sweep {
            return self.palette[self.r.below(n) as usize];
        }
        let i = if self.sweep_pos > 2 && self.r.pct(20) {
            // return to an entry used a while ago
            self.sweep_pos - 1 - self.r.below(self.sweep_pos.min(n))
        } else {
            self.sweep_pos += 1;
            self.sweep_pos - 1
        };
        self.palette[(i % n) as usize]
    }
    /// a source slot of `class`, preferring one that is probably populated
    fn src_of_class(&mut self, class: u64) -> u64 {
        if self.r.pct(85) {
            let cands: Vec<u64> = (0..self.slots).filter(|s| slot_class(*s) == class && self.populated[*s as usize]).collect();
            if !cands.is_empty() {
                return self.r.pick(&cands);
            }
        }
        self.slot_of_class(class)
    }
    fn note(&mut self, op: &Op) {
        match op.k {
            Kind::NewYuv | Kind::NewFloat | Kind::CloneTo => self.populated[op.slot as usize] = true,
            Kind::Conv => {
                self.populated[op.slot as usize] = true;
                if op.consume != 0 && !CONVS[op.which as usize].by_ref {
                    self.populated[op.src as usize] = false;
                }
            }
            Kind::DropSlot => self.populated[op.slot as usize] = false,
            _ => {}
        }
    }
    fn meta(&mut self, n_good: u64, n_all: u64, unspec_pct: u64) -> u64 {
        let x = self.r.below(100);
        if x < unspec_pct {
            0
        } else if x < unspec_pct + 10 {
            self.r.below(n_all)
        } else {
            1 + self.r.below(n_good)
        }
    }
    fn cfg(&mut self, ty: u64) -> CfgI {
        if !self.palette.is_empty() {
            let mut c = self.palette_pick();
            if ty == 0 && self.r.pct(70) {
                c.bd = 8;
            }
            return c;
        }
        let unspec = match self.prof {
            Profile::Metadata => 40,
            Profile::Constructors => 15,
            _ => 6,
        };
        let bd = if ty == 0 {
            if self.r.pct(85) { 8 } else { self.r.range(8, 16) }
        } else {
            *[8u64, 10, 10, 12, 16, 9, 11, 13, 14, 15].get(self.r.below(10) as usize).unwrap_or(&10)
        };
        let (ssx, ssy) = self.r.pick(&[(0u64, 0u64), (0, 0), (1, 1), (1, 1), (1, 0), (0, 1), (2, 0), (2, 2), (2, 1), (1, 2)]);
        // chromaticity-derived matrices are rare in practice but are where caches would hide
        let mc = if self.r.pct(25) { self.meta(13, MATS.len() as u64, unspec) } else { self.meta(N_STD_MATS, MATS.len() as u64, unspec) };
        CfgI {
            bd,
            ssx,
            ssy,
            full: self.r.below(2),
            mc,
            tc: self.meta(N_SUP_TRCS, TRCS.len() as u64, unspec),
            cp: self.meta(N_SUP_PRIS, PRIS.len() as u64, unspec),
        }
    }
    fn dims(&mut self, ssx: u64, ssy: u64, multiple: bool) -> (u64, u64) {
        let (mx, my) = (1u64 << ssx, 1u64 << ssy);
        // threshold sizes of the mpv heuristic, thin in the other direction
        let thresh_pct = if self.prof == Profile::Metadata { 45 } else { 4 };
        // very rarely a real video frame size: fast paths with pixel-count thresholds in the
        // hundreds of thousands are out of reach of everything below
        let video_one_in = if self.prof == Profile::Metadata { 400 } else { 2500 };
        let (mut w, mut h) = if self.r.below(video_one_in) == 0 {
            let (vw, vh) = self.r.pick(&[(720u64, 480u64), (720, 576), (704, 488), (640, 480), (768, 576), (1024, 768), (960, 720), (1280, 720), (256, 258), (320, 240), (352, 288), (1280, 576), (1280, 480), (1281, 488), (1279, 576), (1280, 577), (1279, 577), (1279, 575), (1281, 576), (1279, 480), (1279, 488)]);
            // exact sizes (the thresholds of the heuristic) half of the time, a few rows/columns
            // more otherwise (band and chunk sizes rarely divide those)
            if self.r.pct(50) || self.prof == Profile::Metadata {
                (vw, vh)
            } else {
                (vw + self.r.below(8), vh + self.r.below(8))
            }
        } else if self.r.pct(thresh_pct) {
            // thin in the other direction mostly; now and then a few dozen rows/columns
            let other = if self.r.pct(85) { self.r.range(1, 4) } else { self.r.range(5, 64) };
            if self.r.below(400) == 0 {
                // far beyond any video size: a threshold value plus 2^16 (dimensions are usize;
                // nothing in the rule stops at 65535)
                let big = 65536 + self.r.pick(&[0u64, 1, 480, 488, 576, 577, 1279, 1280]);
                if self.r.pct(50) {
                    (big, self.r.range(1, 2))
                } else {
                    (self.r.range(1, 2), big)
                }
            } else if self.r.pct(50) {
                (self.r.pick(&[1279u64, 1280, 1281, 1276, 1284, 1278, 1282, 1279, 1280, 1281]), other)
            } else {
                (other, self.r.pick(&[479u64, 480, 481, 482, 483, 484, 485, 486, 487, 488, 489, 492, 575, 576, 577, 572, 580, 480, 488, 576, 577, 600, 1279, 1280]))
            }
        } else if self.r.pct(6) {
            (self.r.range(1, 64), self.r.range(1, 64))
        } else if self.r.pct(2) {
            // now and then an image of several thousand pixels (size thresholds of fast paths)
            (self.r.range(48, 96), self.r.range(48, 96))
        } else {
            (self.r.range(1, self.maxdim), self.r.range(1, self.maxdim))
        };
        if multiple {
            w = (w + mx - 1) / mx * mx;
            h = (h + my - 1) / my * my;
        }
        (w, h)
    }
    fn pad(&mut self) -> u64 {
        match self.r.below(10) {
            0..=4 => 0,
            5..=7 => self.r.range(1, 17),
            _ => self.r.range(18, 32),
        }
    }

    fn new_yuv(&mut self, ty: u64) -> Op {
        let mut op = Op::blank(Kind::NewYuv);
        op.which = ty;
        op.slot = self.slot_of_class(ty);
        op.cfg = self.cfg(ty);
        let ill_pct = match self.prof {
            Profile::Safety => 35,
            Profile::Constructors => 45,
            _ => 8,
        };
        let ill = self.palette.is_empty() && self.r.pct(ill_pct);
        let (ssx, ssy) = (op.cfg.ssx, op.cfg.ssy);
        let multiple = !ill || self.r.pct(50);
        let (lw, lh) = self.dims(ssx, ssy, multiple);
        let (cw, ch) = (lw >> ssx, lh >> ssy);
        op.geo[0] = lw;
        op.geo[1] = lh;
        for pl in 0..2 {
            let b = 2 + 4 * pl;
            op.geo[b] = cw.max(1);
            op.geo[b + 1] = ch.max(1);
            op.geo[b + 2] = ssx;
            op.geo[b + 3] = ssy;
        }
        if ill {
            // perturb: which aspect goes wrong is itself drawn; several may
            for _ in 0..self.r.range(1, 2) {
                let pl = 2 + 4 * self.r.below(2) as usize;
                match self.r.below(8) {
                    0 => op.geo[pl] = self.r.range(1, (lw + 2).min(2048)), // chroma width independent (kept small)
                    1 => op.geo[pl + 1] = self.r.range(1, (lh + 2).min(2048)), // chroma height independent
                    2 => op.geo[pl] = (op.geo[pl] / 2).max(1),
                    3 => op.geo[pl + 1] = (op.geo[pl + 1] / 2).max(1),
                    4 => op.geo[pl + 2] = self.r.below(3), // xdec
                    5 => op.geo[pl + 3] = self.r.below(3), // ydec
                    6 => {
                        // both chroma planes 1x1 (the smallest buffers)
                        op.geo[2] = 1;
                        op.geo[3] = 1;
                        op.geo[6] = 1;
                        op.geo[7] = 1;
                    }
                    _ => {
                        // chroma one larger than needed
                        op.geo[pl] += 1;
                    }
                }
            }
        }
        let padded = match self.prof {
            Profile::Independence | Profile::Safety => 70,
            _ => 40,
        };
        if self.r.pct(padded) {
            for i in 10..16 {
                op.geo[i] = self.pad();
            }
            if self.r.pct(50) {
                // same padding on all planes (the common real-world layout)
                for i in (12..16).step_by(2) {
                    op.geo[i] = op.geo[10];
                    op.geo[i + 1] = op.geo[11];
                }
            }
            op.padseed = if self.r.pct(75) { self.r.next() | 1 } else { 0 };
        } else if self.r.pct(50) {
            // no padding requested: v_frame still rounds every row up to 64 bytes, and those
            // invisible alignment slots get arbitrary contents too
            op.padseed = self.r.next() | 1;
        }
        // now and then the LUMA plane carries decimation fields of its own (a half-resolution
        // proxy made with `Plane::downsampled` does); no acceptance rule mentions them
        if self.r.pct(8) {
            op.t = self.r.below(3);
            op.p = self.r.below(3);
        }
        // a quarter of the frames are built with `Plane::from_slice`: rows packed back to back
        // (stride == width, no alignment slack, buffer exactly width*height samples)
        if self.r.pct(25) {
            op.consume = 1;
        } else if self.r.pct(12) {
            // a window into a larger packed buffer (origin and size edited through the public
            // config fields, always consistent with the buffer); geo[10..16] are the origins
            op.consume = 2;
            for i in 10..16 {
                op.geo[i] = self.r.below(9);
            }
            op.padseed = self.r.next() | 1;
        }
        op.dataseed = self.r.next();
        op.datamode = match self.r.below(20) {
            0..=6 => 0,
            7 => 8,     // greyscale / letterbox / pillarbox / neutral-chroma top part
            8..=9 => 4, // structured planes: flat, identical rows / columns, row runs
            10..=14 => 1,
            15..=16 => 3,
            _ => {
                if ty == 1 && op.cfg.bd < 16 && (ill || self.prof == Profile::Constructors || self.r.pct(30)) {
                    // one out-of-range visible sample; sometimes several, several EQUAL ones, or a
                    // whole frame of one out-of-range value (a frame labelled with too small a depth)
                    match self.r.below(10) {
                        0..=5 => 2,
                        6..=7 => 5,
                        8 => 6,
                        _ => 7,
                    }
                } else {
                    0
                }
            }
        };
        op
    }

    fn new_float(&mut self, class: u64) -> Op {
        let mut op = Op::blank(Kind::NewFloat);
        op.which = class;
        op.slot = self.slot_of_class(class);
        let (w, h) = self.dims(0, 0, false);
        let ill_pct = if self.prof == Profile::Constructors { 35 } else { 5 };
        op.geo[1] = w;
        op.geo[2] = h;
        op.geo[0] = w * h;
        if self.r.pct(ill_pct) {
            match self.r.below(5) {
                0 => op.geo[0] = self.r.range(0, 40),
                1 => op.geo[0] = (w * h).saturating_sub(1),
                2 => op.geo[0] = w * h + 1,
                3 => {
                    op.geo[1] = h;
                    op.geo[2] = w + 1;
                }
                _ => {
                    op.geo[1] = self.r.range(0, 40);
                    op.geo[2] = self.r.range(0, 40);
                    op.geo[0] = self.r.range(0, 40);
                }
            }
        }
        let unspec = if self.prof == Profile::Metadata { 40 } else { 8 };
        op.t = self.meta(N_SUP_TRCS, TRCS.len() as u64, unspec);
        op.p = self.meta(N_SUP_PRIS, PRIS.len() as u64, unspec);
        if !self.palette.is_empty() {
            let c = self.palette_pick();
            op.t = c.tc;
            op.p = c.cp;
        }
        op.dataseed = self.r.next();
        // a fifth of the vectors handed to a float constructor carry spare capacity
        op.consume = u64::from(op.dataseed % 5 == 0);
        if op.dataseed % 97 == 0 {
            // an empty image: zero pixels, one dimension possibly still a threshold value
            match op.dataseed / 97 % 3 {
                0 => op.geo[1] = 0,
                1 => op.geo[2] = 0,
                _ => {
                    op.geo[1] = 0;
                    op.geo[2] = 0;
                }
            }
            op.geo[0] = 0;
        }
        let special = if self.prof == Profile::Safety { 30 } else { 8 };
        op.datamode = if self.r.pct(5) && class != CL_HSL {
            7 // grey pixels on quantisation boundaries
        } else if self.r.pct(6) {
            if op.dataseed % 2 == 0 {
                9 // runs of near-duplicates (a few ulps apart)
            } else {
                6 // runs of repeated pixels with sign flips of zeros
            }
        } else if self.prof == Profile::Metadata && class != CL_HSL && self.r.pct(80) {
            0
        } else if class == CL_HSL && self.r.pct(70) {
            3
        } else if self.r.pct(special) {
            if self.r.pct(35) {
                4
            } else {
                2
            }
        } else if self.r.pct(25) {
            1
        } else {
            0
        };
        op
    }

    fn conv(&mut self) -> Op {
        let mut op = Op::blank(Kind::Conv);
        op.which = self.r.below(CONVS.len() as u64);
        if self.prof == Profile::Metadata && self.r.pct(45) {
            // conversions that take metadata from the caller and start from linear light: the
            // ones whose label can disagree with what was applied
            op.which = self.r.pick(&[20u64, 21, 22, 24, 25, 26]);
        }
        if self.prof == Profile::Constructors && self.r.pct(35) {
            // by-value conversions between the float types: the paths on which an image gives up
            // its buffer (`into_data`) and another one takes it over
            op.which = self.r.pick(&[14u64, 15, 18, 19, 20, 23, 24, 27, 27, 19]);
        }
        let cs = CONVS[op.which as usize];
        op.src = self.src_of_class(cs.src);
        op.slot = self.slot_of_class(cs.dst);
        if cs.needs_cfg {
            op.cfg = self.cfg(if cs.dst == CL_Y8 { 0 } else { 1 });
            if self.r.pct(55) {
                // most encodes are 4:4:4 or 4:2:0 so that real source sizes are multiples
                let s = self.r.pick(&[(0u64, 0u64), (0, 0), (1, 1)]);
                op.cfg.ssx = s.0;
                op.cfg.ssy = s.1;
            }
        }
        if cs.needs_tp {
            let unspec = if self.prof == Profile::Metadata { 40 } else { 8 };
            op.t = self.meta(N_SUP_TRCS, TRCS.len() as u64, unspec);
            op.p = self.meta(N_SUP_PRIS, PRIS.len() as u64, unspec);
            if !self.palette.is_empty() {
                let c = self.palette_pick();
                op.t = c.tc;
                op.p = c.cp;
            }
        }
        op.consume = u64::from(self.r.pct(50));
        op
    }

    fn op(&mut self) -> Op {
        // weights per profile: [newyuv, newfloat, conv, mutate, clone, drop, rewrap, read, logger, level]
        let w: [u64; 10] = if !self.palette.is_empty() {
            [10, 7, 68, 3, 3, 1, 1, 5, 1, 1]
        } else {
            match self.prof {
            Profile::Safety => [22, 12, 46, 4, 3, 3, 2, 4, 3, 1],
            Profile::Independence => [14, 8, 52, 6, 5, 3, 2, 6, 3, 1],
            Profile::Constructors => [24, 20, 18, 10, 7, 4, 9, 7, 1, 1],
            Profile::Metadata => [24, 14, 34, 2, 2, 2, 2, 6, 10, 4],
            }
        };
        let total: u64 = w.iter().sum();
        let mut x = self.r.below(total);
        let mut k = 0;
        while x >= w[k] {
            x -= w[k];
            k += 1;
        }
        match k {
            0 => {
                let ty = self.r.below(2);
                self.new_yuv(ty)
            }
            1 => {
                let c = self.r.range(CL_RGB, CL_HSL);
                self.new_float(c)
            }
            2 => self.conv(),
            3 => {
                let mut op = Op::blank(Kind::Mutate);
                let c = self.r.range(CL_RGB, CL_HSL);
                op.slot = self.src_of_class(c);
                op.which = self.r.range(1, 6);
                op.dataseed = self.r.next();
                op.datamode = if self.r.pct(15) { 2 } else { 0 };
                op
            }
            4 => {
                let mut op = Op::blank(Kind::CloneTo);
                let c = self.r.below(N_CLASSES);
                op.src = self.src_of_class(c);
                op.slot = self.slot_of_class(c);
                // half of the clones go through `Clone::clone_from` into whatever the slot holds
                op.consume = self.r.below(2);
                op
            }
            5 => {
                let mut op = Op::blank(Kind::DropSlot);
                op.slot = self.r.below(self.slots);
                op
            }
            6 => {
                let mut op = Op::blank(Kind::Rewrap);
                let c = self.r.range(CL_RGB, CL_HSL);
                op.slot = self.src_of_class(c);
                op.dataseed = self.r.next(); // even: churn same-sized storage afterwards
                op
            }
            7 => {
                let mut op = Op::blank(Kind::Read);
                op.slot = self.r.below(self.slots);
                op
            }
            8 => {
                let mut op = Op::blank(Kind::Logger);
                op.which = self.r.below(6);
                op
            }
            _ => {
                let mut op = Op::blank(Kind::Level);
                op.which = self.r.below(6);
                op
            }
        }
    }
}

/// Miri workload for C07: instead of a random programme, two threads walk through every
/// (sample type x subsampling) combination of the property's quantifier with tiny well-formed
/// frames - construct, decode to a float image, encode back with the same subsampling - so
/// that one Miri execution passes every plane-indexing path the library has (or a change
/// adds) at least once. Sizes, paddings, targets and metadata come from the seed.
fn generate_battery(seed: u64, r: &mut Rng, big: bool) -> RunTrace {
    let slots = 12;
    let mut threads: Vec<Vec<Op>> = vec![Vec::new(), Vec::new()];
    for ty in 0..2u64 {
        let mut combos: Vec<(u64, u64)> = (0..3).flat_map(|x| (0..3).map(move |y| (x, y))).collect();
        // seeded order
        for i in (1..combos.len()).rev() {
            combos.swap(i, r.below(i as u64 + 1) as usize);
        }
        for (ssx, ssy) in combos {
            let mut op = Op::blank(Kind::NewYuv);
            op.which = ty;
            op.slot = ty;
            let bd = if ty == 0 { 8 } else { r.pick(&[8u64, 10, 12, 16]) };
            op.cfg = CfgI { bd, ssx, ssy, full: r.below(2), mc: 1 + r.below(N_STD_MATS), tc: 1 + r.below(N_SUP_TRCS), cp: 1 + r.below(10) };
            let (lw, lh) = ((1 << ssx) * r.range(1, 2), (1 << ssy) * r.range(1, 2));
            op.geo[0] = lw;
            op.geo[1] = lh;
            for pl in [2usize, 6] {
                op.geo[pl] = lw >> ssx;
                op.geo[pl + 1] = lh >> ssy;
                op.geo[pl + 2] = ssx;
                op.geo[pl + 3] = ssy;
            }
            if r.pct(30) {
                // vertical padding is cheap under Miri (horizontal padding costs a 64-byte origin)
                for i in [11usize, 13, 15] {
                    op.geo[i] = r.range(0, 2);
                }
                op.padseed = r.next() | 1;
            }
            op.dataseed = r.next();
            threads[ty as usize].push(op);
            // decode by reference to Rgb / LinearRgb / Xyb (CONVS 0..5: even = u8, odd = u16)
            let target = r.below(3);
            let mut dec = Op::blank(Kind::Conv);
            dec.which = target * 2 + ty;
            dec.src = ty;
            dec.slot = CONVS[dec.which as usize].dst + 6 * ty;
            threads[ty as usize].push(dec);
            // encode an Rgb back with the same subsampling (needs an Rgb in the pool: produced by
            // the first Rgb decode of this thread; until then the op is skipped)
            let mut enc = Op::blank(Kind::Conv);
            enc.which = 6 + ty;
            enc.src = CL_RGB + 6 * ty;
            enc.slot = ty + 6;
            enc.cfg = CfgI { ssx, ssy, ..threads[ty as usize][threads[ty as usize].len() - 2].cfg };
            threads[ty as usize].push(enc);
        }
        // one frame of a few thousand pixels (paths that exist only above a pixel-count
        // threshold: lookup-table decodes, banded kernels), horizontally padded and with no row
        // below the visible area - the layout in which "stride * height samples follow the
        // origin" is false
        if big && (ty == 0 || r.pct(25)) {
            let (ssx, ssy) = r.pick(&[(0u64, 0u64), (1, 1), (1, 0)]);
            let mut op = Op::blank(Kind::NewYuv);
            op.which = ty;
            op.slot = ty;
            // (16-bit storage only at depth 8: 16 pixels per code value at 10 bits is 16 384
            // pixels, minutes of Miri)
            let bd = 8;
            op.cfg = CfgI { bd, ssx, ssy, full: r.below(2), mc: 1 + r.below(N_STD_MATS), tc: 1 + r.below(N_SUP_TRCS), cp: 1 + r.below(10) };
            let px = 16u64 << bd; // 16 pixels per code value: 4096 at 8 bits
            let lw = (r.pick(&[64u64, 66, 72, 96, 128]) + 1) / 2 * 2;
            let lh = ((px + lw - 1) / lw + r.below(3) + 1) / 2 * 2;
            op.geo[0] = lw;
            op.geo[1] = lh;
            for pl in [2usize, 6] {
                op.geo[pl] = lw >> ssx;
                op.geo[pl + 1] = lh >> ssy;
                op.geo[pl + 2] = ssx;
                op.geo[pl + 3] = ssy;
            }
            for i in [10usize, 12, 14] {
                op.geo[i] = r.range(1, 9); // xpad; ypad stays 0
            }
            op.padseed = r.next() | 1;
            op.dataseed = r.next();
            op.datamode = r.pick(&[0u64, 4, 8]);
            threads[ty as usize].push(op);
            // decode to Rgb by reference: the plane-unpacking stage without a transfer curve
            let mut dec = Op::blank(Kind::Conv);
            dec.which = ty;
            dec.src = ty;
            dec.slot = CONVS[dec.which as usize].dst + 6 * ty;
            threads[ty as usize].push(dec);
        }
        // two frames with packed rows (`Plane::from_slice`: no alignment slack behind a row or
        // behind the buffer) and rows wide enough for chunked fast paths
        for _ in 0..2 {
            let (ssx, ssy) = r.pick(&[(0u64, 0u64), (1, 1), (1, 0), (2, 0), (0, 1)]);
            let mut op = Op::blank(Kind::NewYuv);
            op.which = ty;
            op.slot = ty;
            op.consume = 1;
            let bd = if ty == 0 { 8 } else { r.pick(&[10u64, 12, 16]) };
            op.cfg = CfgI { bd, ssx, ssy, full: r.below(2), mc: 1 + r.below(N_STD_MATS), tc: 1 + r.below(N_SUP_TRCS), cp: 1 + r.below(10) };
            let unit = 1u64 << ssx;
            let lw = (r.range(33, 72) + unit - 1) / unit * unit;
            let lh = (1u64 << ssy) * r.range(1, 2);
            op.geo[0] = lw;
            op.geo[1] = lh;
            for pl in [2usize, 6] {
                op.geo[pl] = lw >> ssx;
                op.geo[pl + 1] = lh >> ssy;
                op.geo[pl + 2] = ssx;
                op.geo[pl + 3] = ssy;
            }
            op.dataseed = r.next();
            if r.pct(50) {
                op.consume = 2;
                for i in 10..16 {
                    op.geo[i] = r.below(9);
                }
                op.padseed = r.next() | 1;
            }
            threads[ty as usize].push(op);
            let mut dec = Op::blank(Kind::Conv);
            dec.which = r.below(3) * 2 + ty;
            dec.src = ty;
            dec.slot = CONVS[dec.which as usize].dst + 6 * ty;
            threads[ty as usize].push(dec);
        }
    }
    RunTrace { seed, knobs: Knobs { slots, preempt: 0, heap: 0, iso: 0, repeat: 0, stress: 0, guard: 0, scn: 3 }, pre: Vec::new(), threads, sched: Vec::new() }
}

/// Native scenario "huge": one image of about 2^20 samples (full-HD frames, frames a few rows or
/// columns beyond, and degenerate shapes such as 2^19 x 2), constructed - well- or ill-formed -,
/// read back, now and then converted once, and dropped. Size thresholds of fast paths (parallel
/// scans, banded kernels) in the hundreds of thousands of samples are out of reach of every other
/// scenario; the frames are too expensive to appear inside ordinary programmes.
fn generate_huge(seed: u64, prof: Profile, r: &mut Rng) -> RunTrace {
    let mut ops: Vec<Op> = Vec::new();
    let shapes: [(u64, u64); 16] = [
        (1920, 1080),
        (1920, 1082),
        (1920, 1083),
        (1922, 1081),
        (2048, 514),
        (2048, 513),
        (1 << 19, 2),
        (1 << 19, 3),
        (2, 1 << 19),
        (4, 1 << 18),
        (1 << 20, 1),
        (1, 1 << 20),
        (1024, 1025),
        (1028, 1022),
        (1 << 18, 5),
        (1366, 768),
    ];
    let (mut w, mut h) = r.pick(&shapes);
    if r.pct(40) {
        w += r.below(4);
        h += r.below(4);
    }
    let float = r.pct(if prof == Profile::Constructors { 25 } else { 35 });
    let slot;
    if float {
        let class = r.range(CL_RGB, CL_HSL);
        let mut o = Op::blank(Kind::NewFloat);
        o.which = class;
        o.slot = class;
        o.geo[1] = w;
        o.geo[2] = h;
        o.geo[0] = match r.below(10) {
            0 => w * h - 1,
            1 => w * h + 1,
            2 => w * (h - 1).max(1),
            _ => w * h,
        };
        o.t = 1 + r.below(N_SUP_TRCS);
        o.p = 1 + r.below(10);
        if r.pct(15) {
            o.t = 0;
            o.p = 0;
        }
        o.dataseed = r.next();
        o.datamode = if class == CL_HSL { 3 } else { r.pick(&[0u64, 0, 1, 6]) };
        slot = o.slot;
        ops.push(o);
    } else {
        let ty = if prof == Profile::Constructors { u64::from(r.pct(75)) } else { r.below(2) };
        let mut o = Op::blank(Kind::NewYuv);
        o.which = ty;
        o.slot = ty;
        let (ssx, ssy) = r.pick(&[(0u64, 0u64), (0, 0), (1, 1), (1, 1), (1, 0), (0, 1), (2, 2)]);
        let bd = if ty == 0 { 8 } else { r.pick(&[10u64, 10, 12, 9, 15, 16]) };
        let unspec = |r: &mut Rng, n: u64| if r.pct(20) { 0 } else { 1 + r.below(n) };
        o.cfg = CfgI { bd, ssx, ssy, full: r.below(2), mc: unspec(r, N_STD_MATS), tc: unspec(r, N_SUP_TRCS), cp: unspec(r, 10) };
        let ill_geo = r.pct(10);
        if !ill_geo {
            w = (w + (1 << ssx) - 1) >> ssx << ssx;
            h = (h + (1 << ssy) - 1) >> ssy << ssy;
        }
        o.geo[0] = w;
        o.geo[1] = h;
        for pl in [2usize, 6] {
            o.geo[pl] = (w >> ssx).max(1);
            o.geo[pl + 1] = (h >> ssy).max(1);
            o.geo[pl + 2] = ssx;
            o.geo[pl + 3] = ssy;
        }
        if ill_geo && r.pct(50) {
            o.geo[7] = (o.geo[7] - 1).max(1);
        }
        match r.below(10) {
            0..=4 => {}
            5..=6 => {
                // small padding (kept small: the buffers are large already)
                for i in 10..16 {
                    o.geo[i] = r.below(5);
                }
                o.padseed = r.next() | 1;
            }
            7..=8 => o.consume = 1,
            _ => {
                o.consume = 2;
                for i in 10..16 {
                    o.geo[i] = r.below(5);
                }
                o.padseed = r.next() | 1;
            }
        }
        o.dataseed = r.next();
        let oob_pct = if prof == Profile::Constructors { 65 } else { 15 };
        o.datamode = if ty == 1 && bd < 16 && r.pct(oob_pct) { r.pick(&[2u64, 2, 2, 5, 6]) } else { r.pick(&[0u64, 0, 1, 4]) };
        slot = o.slot;
        ops.push(o);
    }
    let mut rd = Op::blank(Kind::Read);
    rd.slot = slot;
    ops.push(rd);
    let mut dst = None;
    if r.pct(if prof == Profile::Constructors { 15 } else { 45 }) {
        // one conversion out of the huge image (by reference where the API has it)
        let cands: Vec<u64> = (0..28u64).filter(|i| CONVS[*i as usize].src == slot_class(slot) && (CONVS[*i as usize].by_ref || slot_class(slot) > CL_Y16)).collect();
        if !cands.is_empty() {
            let mut c = Op::blank(Kind::Conv);
            c.which = r.pick(&cands);
            c.src = slot;
            c.slot = CONVS[c.which as usize].dst + 6;
            c.cfg = CfgI { bd: if CONVS[c.which as usize].dst == CL_Y8 { 8 } else { r.pick(&[10u64, 12, 16]) }, ssx: r.below(2), ssy: r.below(2), full: r.below(2), mc: 1 + r.below(N_STD_MATS), tc: r.below(N_SUP_TRCS + 1), cp: r.below(11) };
            c.t = r.below(N_SUP_TRCS + 1);
            c.p = r.below(11);
            dst = Some(c.slot);
            ops.push(c);
        }
    }
    for s in [Some(slot), dst].into_iter().flatten() {
        let mut d = Op::blank(Kind::DropSlot);
        d.slot = s;
        ops.push(d);
    }
    let knobs = Knobs { slots: 12, preempt: 0, heap: if r.pct(50) { r.range(1, 255) } else { 0 }, iso: 0, repeat: r.below(2), stress: 0, guard: u64::from(r.pct(30)) * r.range(1, 2), scn: 6 };
    RunTrace { seed, knobs, pre: Vec::new(), threads: vec![ops], sched: Vec::new() }
}

/// Miri workload for C07's second sentence: one thread, images that hold every special float
/// value in every channel (NaN with and without payload, infinities, +-3e38, MAX, subnormals,
/// signed zeros, range boundaries), pushed once through every transfer curve in both directions,
/// through XYB and HSL both ways and through the quantiser of every float -> YUV path. A
/// `to_int_unchecked` (or any other unchecked numeric step) that such a value reaches is UB that
/// no native run can observe - the result is merely some integer - and that Miri reports.
fn generate_float_battery(seed: u64, r: &mut Rng) -> RunTrace {
    let mut ops: Vec<Op> = Vec::new();
    let special = |r: &mut Rng, class: u64, t: u64, p: u64| {
        let mut o = Op::blank(Kind::NewFloat);
        o.which = class;
        o.slot = class;
        // 22 pixels hold the whole table; now and then more, so that block tails differ and
        // whole blocks of a chunked kernel exist
        let n = 22 + r.pick(&[0u64, 0, 1, 3, 10, 42, 128]);
        o.geo = [0; 16];
        o.geo[0] = n;
        o.geo[1] = n;
        o.geo[2] = 1;
        o.t = t;
        o.p = p;
        o.dataseed = r.next();
        o.datamode = 8;
        o
    };
    let conv = |which: u64, slot_off: u64| {
        let mut c = Op::blank(Kind::Conv);
        c.which = which;
        c.src = CONVS[which as usize].src;
        c.slot = CONVS[which as usize].dst + slot_off;
        c
    };
    let first = r.below(N_SUP_TRCS);
    for k in 0..N_SUP_TRCS {
        let t = 1 + (first + k) % N_SUP_TRCS;
        let p = 1 + r.below(10);
        // gamma -> linear
        ops.push(special(r, CL_RGB, t, p));
        ops.push(conv(14, 6));
        // linear -> gamma
        ops.push(special(r, CL_LIN, 0, 0));
        let mut c = conv(20, 6);
        c.t = t;
        c.p = p;
        ops.push(c);
    }
    ops.push(special(r, CL_LIN, 0, 0));
    ops.push(conv(18, 6));
    ops.push(special(r, CL_XYB, 0, 0));
    ops.push(conv(23, 6));
    ops.push(special(r, CL_LIN, 0, 0));
    ops.push(conv(19, 6));
    ops.push(special(r, CL_HSL, 0, 0));
    ops.push(conv(27, 6));
    // the quantisers: by reference and by value, both sample types, from every float type
    for &(src, which) in &[(CL_RGB, 6u64), (CL_RGB, 7), (CL_RGB, 16), (CL_RGB, 17), (CL_LIN, 21), (CL_LIN, 22), (CL_XYB, 25), (CL_XYB, 26)] {
        let ty = CONVS[which as usize].dst;
        let bd = if ty == 0 { 8 } else { r.pick(&[8u64, 10, 12, 16]) };
        let (ssx, ssy) = r.pick(&[(0u64, 0u64), (0, 0), (1, 0), (0, 1)]);
        let cfg = CfgI { bd, ssx, ssy, full: r.below(2), mc: 1 + r.below(N_STD_MATS), tc: 1 + r.below(N_SUP_TRCS), cp: 1 + r.below(10) };
        let mut o = special(r, src, cfg.tc, cfg.cp);
        // rows wide enough for block kernels (a block of 128 or 256 samples that is quantised
        // "branch-free" exists only in rows at least that wide); even where subsampling wants it
        o.geo[1] = r.pick(&[22u64, 150, 150, 280, 280, 530, 1300]);
        o.geo[2] = 1 << ssy;
        o.geo[0] = o.geo[1] * o.geo[2];
        ops.push(o);
        let mut c = conv(which, 6);
        c.cfg = cfg;
        ops.push(c);
    }
    RunTrace { seed, knobs: Knobs { slots: 12, preempt: 0, heap: 0, iso: 0, repeat: 0, stress: 0, guard: 0, scn: 5 }, pre: Vec::new(), threads: vec![ops], sched: Vec::new() }
}

/// Miri workload for C12: a "clone family". One float image and a clone of it sit in two slots;
/// 2-3 threads keep cloning either into either slot, writing through `data_mut`, reading back and
/// converting by value - the operations between which any buffer sharing a change introduces
/// (copy-on-write, recycling) has to stay invisible.
fn generate_clone_family(seed: u64, r: &mut Rng) -> RunTrace {
    let class = r.range(CL_RGB, CL_HSL);
    let (a, b) = (class, class + 6);
    let mut new = Op::blank(Kind::NewFloat);
    new.which = class;
    new.slot = a;
    let (w, h) = (r.range(1, 3), r.range(1, 2));
    new.geo[0] = w * h;
    new.geo[1] = w;
    new.geo[2] = h;
    new.t = 1 + r.below(N_SUP_TRCS);
    new.p = 1 + r.below(10);
    new.dataseed = r.next();
    new.datamode = if class == CL_HSL { 3 } else { 0 };
    let mut cl = Op::blank(Kind::CloneTo);
    cl.src = a;
    cl.slot = b;
    let mut threads = Vec::new();
    for _ in 0..r.range(2, 3) {
        let mut ops = Vec::new();
        for _ in 0..r.range(4, 6) {
            let mut op = match r.below(10) {
                0..=3 => {
                    let mut o = Op::blank(Kind::CloneTo);
                    o.src = r.pick(&[a, b]);
                    o.slot = r.pick(&[a, b]);
                    o
                }
                4..=6 => {
                    let mut o = Op::blank(Kind::Mutate);
                    o.slot = r.pick(&[a, b]);
                    o.which = r.range(1, 3);
                    o.dataseed = r.next();
                    o
                }
                7..=8 => {
                    let mut o = Op::blank(Kind::Read);
                    o.slot = r.pick(&[a, b]);
                    o
                }
                _ => {
                    let mut o = Op::blank(Kind::Rewrap);
                    o.slot = r.pick(&[a, b]);
                    o
                }
            };
            op.datamode = if class == CL_HSL { 3 } else { 0 };
            ops.push(op);
        }
        threads.push(ops);
    }
    RunTrace { seed, knobs: Knobs { slots: 12, preempt: 0, heap: 0, iso: 0, repeat: 0, stress: 0, guard: 0, scn: 4 }, pre: vec![new, cl], threads, sched: Vec::new() }
}

/// Generates the explicit programme of one run from its seed.
pub fn generate(seed: u64, prof: Profile, miri: bool) -> RunTrace {
    generate_kind(seed, prof, miri, None)
}

/// Miri workloads: the scenario kind is a function of the workload number (`kind`, 0..5) so that
/// every tier runs every kind, however few workloads it can afford.
pub fn generate_kind(seed: u64, prof: Profile, miri: bool, kind: Option<u64>) -> RunTrace {
    if !miri {
        // drawn from a stream of its own so that the other scenarios keep their programmes
        let one_in = if prof == Profile::Constructors { 300 } else { 1200 };
        if crate::rng::mix(seed, 0x4855_4745) % one_in == 0 {
            let mut r = Rng::new(seed ^ 0x4855_4745_0000);
            return generate_huge(seed, prof, &mut r);
        }
    }
    let mut r = Rng::new(seed ^ 0xd51_0000_0000 ^ (prof as u64) << 56);
    let roll = r.below(5);
    let kind = kind.unwrap_or(roll) % 5;
    if miri && prof == Profile::Constructors && kind != 3 {
        return generate_clone_family(seed, &mut r);
    }
    if miri && prof == Profile::Safety {
        // two in five stay random mixes
        match kind {
            1 => return generate_float_battery(seed, &mut r),
            // (every other battery carries the frame of a few thousand pixels)
            0 | 3 => return generate_battery(seed, &mut r, kind == 0),
            _ => {}
        }
    }
    let slots = if miri { 6 } else { r.range(6, 12) };
    let maxdim = if miri {
        // mostly tiny; a quarter of the workloads reach a few dozen pixels (size thresholds)
        if r.pct(25) {
            r.range(5, 8)
        } else {
            r.range(1, 4)
        }
    } else {
        match r.below(10) {
            0..=5 => r.range(2, 8),
            6..=8 => r.range(8, 12),
            _ => r.range(12, 24),
        }
    };
    let nthreads = if miri {
        r.range(2, 3)
    } else {
        match prof {
            Profile::Independence => r.range(1, 4),
            _ => *[1u64, 1, 2, 2, 3, 4].get(r.below(6) as usize).unwrap_or(&1),
        }
    };
    let nops = if miri { r.range(3, 5) } else { r.range(3, 40 / nthreads.max(1) + 3) };
    let npre = if miri { r.range(4, 6) } else { r.range(2, 10) };
    let knobs = Knobs {
        slots,
        preempt: if miri { 0 } else { r.pick(&[0u64, 5, 20, 50, 50, 90]) },
        heap: if miri || r.pct(15) { 0 } else { r.range(1, 255) },
        iso: if miri { 0 } else { u64::from(r.pct(35)) * r.range(1, 2) },
        repeat: if miri { 1 } else { u64::from(r.pct(50)) },
        stress: 0,
        guard: if miri {
            0
        } else {
            // 1 = blocks end at a guard page (over-runs), 2 = blocks start behind one (under-runs)
            u64::from(r.pct(match prof {
                Profile::Safety => 30,
                Profile::Independence => 10,
                _ => 5,
            })) * if r.pct(75) { 1 } else { 2 }
        },
        scn: 0,
    };
    // a third of the native runs and two thirds of the Miri workloads are contention scenarios
    let contention = r.pct(if miri { 66 } else { 33 });
    // native only: one run in eight sweeps through a long palette of distinct configurations
    let sweep = !miri && !contention && r.pct(18);
    let palette = if contention {
        make_palette(&mut r)
    } else if sweep {
        make_sweep_palette(&mut r)
    } else {
        Vec::new()
    };
    let knobs = if contention && !miri && r.pct(40) { Knobs { stress: r.range(20, 60), ..knobs } } else { knobs };
    let knobs = Knobs { scn: if contention { 1 } else if sweep { 2 } else { 0 }, ..knobs };
    // a fifth of the runs without guard pages: the allocator recycles freed blocks eagerly
    // (guard = 3; drawn from a stream of its own)
    let knobs = if !miri && knobs.guard == 0 && crate::rng::mix(seed, 0x7265_7573) % 5 == 0 { Knobs { guard: 3, ..knobs } } else { knobs };
    let (nthreads, nops, knobs) = if sweep {
        // few threads, long programmes, no immediate repetition (it would turn every miss into a hit)
        (r.range(1, 2), r.range(30, 60), Knobs { repeat: 0, ..knobs })
    } else {
        (nthreads, nops, knobs)
    };
    let mut g = Gen { r: &mut r, prof, slots, maxdim: if sweep { maxdim.min(6) } else { maxdim }, palette, sweep, sweep_pos: 0, populated: vec![false; slots as usize] };
    let mut pre = Vec::new();
    // some runs start with the logger already in one of its fault modes (every run otherwise
    // begins with the counting logger at level Warn)
    if !miri && g.r.pct(if prof == Profile::Metadata { 60 } else { 25 }) {
        let mut op = Op::blank(Kind::Logger);
        op.which = g.r.below(6);
        pre.push(op);
    }
    // the preamble populates the pool: constructors (mostly well formed so that there is
    // something to convert), one of each class first
    for i in 0..npre {
        let c = i % N_CLASSES;
        let op = if c <= CL_Y16 { g.new_yuv(c) } else { g.new_float(c) };
        g.note(&op);
        pre.push(op);
    }
    let mut threads = Vec::new();
    for _ in 0..nthreads {
        let mut ops = Vec::new();
        for _ in 0..nops {
            let mut op = g.op();
            g.note(&op);
            if miri {
                // Miri is ~3 orders of magnitude slower: keep images tiny, no threshold sizes
                shrink_for_miri(&mut op);
            }
            ops.push(op);
        }
        threads.push(ops);
    }
    if miri {
        for op in &mut pre {
            shrink_for_miri(op);
        }
    }
    RunTrace { seed, knobs, pre, threads, sched: Vec::new() }
}

/// 2-3 fully specified configurations for a contention scenario. Mostly they differ along
/// *every* axis a cache could be keyed on at once (matrix - both from the chromaticity-derived
/// class, both standard, or mixed - primaries, transfer, depth, range), so that one workload
/// thrashes any configuration-keyed cache; sometimes along exactly one axis, for state whose
/// defect needs everything else to be equal.
fn make_palette(r: &mut Rng) -> Vec<CfgI> {
    const DERIVED: [u64; 5] = [8, 9, 11, 12, 13]; // Identity, BT2020CL, ChromaDerivedCL, ST2085, ICtCp
    let n = r.range(2, 3);
    let base = CfgI {
        bd: r.pick(&[8u64, 8, 10, 12]),
        ssx: 0,
        ssy: 0,
        full: r.below(2),
        mc: 1 + r.below(N_STD_MATS),
        tc: 1 + r.below(N_SUP_TRCS),
        cp: 1 + r.below(10), // physical primaries (not ST 428)
    };
    let ss = r.pick(&[(0u64, 0u64), (0, 0), (1, 1), (1, 0)]);
    let axis = if r.pct(60) { 5 } else { r.below(5) };
    let matrix_class = r.below(3); // 0 both derived, 1 both standard, 2 mixed
    let step_cp = 1 + r.below(3);
    let step_tc = 1 + r.below(4);
    let mut v = Vec::new();
    for i in 0..n {
        let mut c = base;
        c.ssx = ss.0;
        c.ssy = ss.1;
        match axis {
            // chromaticity-derived matrix, different primaries: the most expensive matrix to build
            0 => {
                c.mc = r.pick(&DERIVED);
                c.cp = 1 + (base.cp + i * step_cp) % 10;
            }
            // different standard matrices
            1 => c.mc = 1 + (base.mc + i) % N_STD_MATS,
            // same matrix, different depth / range
            2 => {
                c.bd = [8u64, 10, 12, 16][((base.bd + i) % 4) as usize];
                c.full = (base.full + i) % 2;
            }
            // different transfer curves
            3 => c.tc = 1 + (base.tc + i * step_tc) % N_SUP_TRCS,
            // different primaries
            4 => c.cp = 1 + (base.cp + i * step_cp) % 10,
            // everything differs
            _ => {
                let derived = match matrix_class {
                    0 => true,
                    1 => false,
                    _ => i % 2 == 0,
                };
                c.mc = if derived { DERIVED[((base.mc + i) % 5) as usize] } else { 1 + (base.mc + i) % N_STD_MATS };
                c.cp = 1 + (base.cp + i * step_cp) % 10;
                c.tc = 1 + (base.tc + i * step_tc) % N_SUP_TRCS;
                c.bd = [8u64, 10, 12, 16][((base.bd / 2 + i) % 4) as usize];
                c.full = (base.full + i) % 2;
            }
        }
        v.push(c);
    }
    v
}

/// 12-24 fully specified configurations, all different in primaries x transfer x matrix.
fn make_sweep_palette(r: &mut Rng) -> Vec<CfgI> {
    let n = r.range(12, 24);
    let (p0, t0, m0) = (r.below(10), r.below(N_SUP_TRCS), r.below(13));
    let (bd, full) = (r.pick(&[8u64, 10]), r.below(2));
    (0..n)
        .map(|i| CfgI {
            bd,
            ssx: 0,
            ssy: 0,
            full,
            mc: 1 + (m0 + i) % 13,
            tc: 1 + (t0 + i * 3) % N_SUP_TRCS,
            cp: 1 + (p0 + i) % 10,
        })
        .collect()
}

/// A copy of a run small enough for the Miri engine: tiny unpadded images, no fresh-process
/// references, no stress phase, schedule left to Miri.
pub fn miri_sized(tr: &RunTrace) -> RunTrace {
    let mut t = tr.clone();
    for op in t.pre.iter_mut().chain(t.threads.iter_mut().flatten()) {
        shrink_for_miri(op);
    }
    for th in &mut t.threads {
        th.truncate(12);
    }
    t.knobs = Knobs { heap: 0, iso: 0, stress: 0, repeat: 1, preempt: 0, guard: 0, ..t.knobs };
    t.sched.clear();
    t
}

fn shrink_for_miri(op: &mut Op) {
    match op.k {
        Kind::NewYuv => {
            let (ssx, ssy) = (op.cfg.ssx, op.cfg.ssy);
            let shrink = |d: u64, m: u64| -> u64 {
                if d <= 8 {
                    d
                } else {
                    (d % 5 + 1 + m - 1) / m * m
                }
            };
            let (ow, oh) = (op.geo[0], op.geo[1]);
            op.geo[0] = shrink(ow, 1 << ssx);
            op.geo[1] = shrink(oh, 1 << ssy);
            for pl in [2usize, 6] {
                // keep the relation chroma == luma >> ss when it held
                if op.geo[pl] == (ow >> ssx).max(1) {
                    op.geo[pl] = (op.geo[0] >> ssx).max(1);
                } else {
                    op.geo[pl] = shrink(op.geo[pl], 1);
                }
                if op.geo[pl + 1] == (oh >> ssy).max(1) {
                    op.geo[pl + 1] = (op.geo[1] >> ssy).max(1);
                } else {
                    op.geo[pl + 1] = shrink(op.geo[pl + 1], 1);
                }
            }
            // v_frame rounds any non-zero x padding up to a 64-byte origin: hundreds of samples per
            // row to initialise and snapshot. Padding is the native engine's business.
            if op.consume != 2 {
                for i in 10..16 {
                    op.geo[i] = 0;
                }
                op.padseed = 0;
            }
        }
        Kind::NewFloat => {
            if op.geo[1] > 6 || op.geo[2] > 6 {
                let exact = op.geo[0] == op.geo[1] * op.geo[2];
                op.geo[1] = op.geo[1] % 5 + 1;
                op.geo[2] = op.geo[2] % 5 + 1;
                op.geo[0] = if exact { op.geo[1] * op.geo[2] } else { op.geo[0] % 30 };
            }
        }
        _ => {}
    }
}
