use yuvxyb::*;
fn cfg(ss: (u8, u8)) -> YuvConfig {
    YuvConfig { bit_depth: 8, subsampling_x: ss.0, subsampling_y: ss.1, full_range: false,
        matrix_coefficients: MatrixCoefficients::BT709, transfer_characteristics: TransferCharacteristic::BT1886, color_primaries: ColorPrimaries::BT709 }
}
fn main() {
    match std::env::args().nth(1).as_deref() {
        Some("d1") => {
            // 64x64 luma, 1x1 chroma planes, declared 4:4:4: accepted, then read out of bounds
            let f: Frame<u8> = Frame { planes: [Plane::new(64, 64, 0, 0, 0, 0), Plane::new(1, 1, 0, 0, 0, 0), Plane::new(1, 1, 0, 0, 0, 0)] };
            let y = Yuv::new(f, cfg((0, 0))).expect("accepted");
            let r = Rgb::try_from(&y).unwrap();
            println!("{:?}", r.data()[4095]);
        }
        Some("d2") => {
            // 1x1 RGB image encoded as 4:2:0: chroma planes are 0x0, written at index 0
            let rgb = Rgb::new(vec![[0.5, 0.5, 0.5]], 1, 1, TransferCharacteristic::BT1886, ColorPrimaries::BT709).unwrap();
            let y = Yuv::<u8>::try_from((&rgb, cfg((1, 1))));
            println!("{:?}", y.is_ok());
        }
        Some("d4") => {
            // an infinite HLG sample: expf(inf) -> exp2(inf - inf = NaN) -> to_int_unchecked(NaN)
            let rgb = Rgb::new(vec![[f32::INFINITY, 0.5, 0.5]], 1, 1, TransferCharacteristic::HybridLogGamma, ColorPrimaries::BT709).unwrap();
            let l = LinearRgb::try_from(rgb).unwrap();
            println!("{:?}", l.data()[0]);
        }
        _ => {}
    }
}
