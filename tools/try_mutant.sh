#!/usr/bin/env bash
# Applies a patch to /repo's working tree, runs the given checks, and ALWAYS reverts.
# usage: tools/try_mutant.sh <patch.diff> <tier> <prop> [<prop>...] [-- extra check args]
set -u
HERE=$(cd "$(dirname "$0")/.." && pwd)
patch=$(readlink -f "$1"); tier=$2; shift 2
props=(); while [ $# -gt 0 ] && [ "$1" != "--" ]; do props+=("$1"); shift; done; [ $# -gt 0 ] && shift
[ -z "$(git -C /repo status --porcelain)" ] || { echo "/repo working tree is not clean"; exit 2; }
trap 'git -C /repo checkout -- . ; git -C /repo clean -fdq -- src yuvxyb-math/src tests 2>/dev/null' EXIT
git -C /repo apply "$patch" || { echo "patch does not apply"; exit 2; }
for p in "${props[@]}"; do
  out=$("$HERE/check" "$p" "$tier" "$@" 2>&1); rc=$?
  echo "== $p $tier: exit $rc"
  echo "$out" | grep -E "^violation|^minimised|^VIOLATION|^PASS|^HARNESS|^Miri engine|^KNOWN" | cut -c1-420
done
