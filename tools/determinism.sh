#!/usr/bin/env bash
# Determinism proof for the native engine: the same run seeds executed (a) in one process and
# (b) split over several concurrently running processes must produce identical per-run records
# (programme digest, hash of the executed interleaving, violations). usage: tools/determinism.sh [runs] [base-seed]
set -u
HERE=$(cd "$(dirname "$0")/.." && pwd)
"$HERE/check" --setup >/dev/null || exit 2
D="$HERE/target/sim/release/dsim"
N=${1:-4000}; BASE=${2:-7}; PARTS=8; PER=$((N/PARTS))
T=$(mktemp -d); trap 'rm -rf "$T"' EXIT
rc=0
for prof in safety independence constructors metadata; do
  "$D" session --profile $prof --base "$BASE" --from 0 --to $((PER*PARTS)) | grep -E '^RUN|^VIOL' | sort -t= -k2 -n >"$T/one"
  ( for j in $(seq 0 $((PARTS-1))); do "$D" session --profile $prof --base "$BASE" --from $((j*PER)) --to $((j*PER+PER)) & done; wait ) | grep -E '^RUN|^VIOL' | sort -t= -k2 -n >"$T/many"
  if cmp -s "$T/one" "$T/many"; then echo "$prof: $((PER*PARTS)) runs identical (1 process vs $PARTS concurrent processes)"; else echo "$prof: DIVERGED"; diff "$T/one" "$T/many" | head -4; rc=1; fi
  # and the binary built with the profile users ship executes the same runs the same way
  "$HERE/target/sim/shipped/dsim" session --profile $prof --base "$BASE" --from 0 --to $((PER*PARTS)) | grep -E '^RUN|^VIOL' | sort -t= -k2 -n >"$T/shipped"
  if cmp -s "$T/one" "$T/shipped"; then echo "$prof: $((PER*PARTS)) runs identical (checked-profile vs shipped-profile binary)"; else echo "$prof: DIVERGED between build profiles"; diff "$T/one" "$T/shipped" | head -4; rc=1; fi
done
exit $rc
