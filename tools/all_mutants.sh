#!/usr/bin/env bash
# Regression over seeded/: applies each kept change to /repo, runs the quick check of the property
# it breaks, reverts, and prints one line per change. usage: tools/all_mutants.sh [extra check args]
HERE=$(cd "$(dirname "$0")/.." && pwd)
for d in "$HERE"/seeded/*/; do
  name=$(basename "$d"); [ "$name" = controls ] && continue; [ "$name" = probes ] && continue
  prop=$(python3 -c "import json,sys; print(json.load(open('$d/meta.json'))['property'])")
  patch="$d/patch.diff"; [ -f "$d/patch-on-current-tree.diff" ] && patch="$d/patch-on-current-tree.diff"
  git -C /repo apply --check "$patch" 2>/dev/null || { echo "$name: patch does not apply to the current tree (see meta.json)"; continue; }
  note=$(python3 -c "import json; print('(expected miss, see meta.json) ' if json.load(open('$d/meta.json')).get('expected_miss') else '')")
  out=$("$HERE/tools/try_mutant.sh" "$patch" quick "$prop" -- "$@" 2>&1)
  echo "$name [$prop]: $note$(echo "$out" | grep -E '^== ' | sed 's/^== //') $(echo "$out" | grep -E '^violation|^Miri engine' | head -1 | cut -c1-110)"
done
# negative controls: behaviour-preserving refactors, every check must pass
for d in "$HERE"/seeded/controls/*/; do
  name=$(basename "$d")
  out=$("$HERE/tools/try_mutant.sh" "$d/patch.diff" quick C07 C11 C12 C15 -- "$@" 2>&1)
  echo "control $name: $(echo "$out" | grep -E '^== ' | sed 's/^== //; s/ quick: exit /=/' | tr '\n' ' ')"
done
