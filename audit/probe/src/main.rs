//! Applicability-audit probe for the deterministic-simulation family.
//!
//! This program decides no property. It re-measures, against the tree it is
//! built from, the premise on which /verif/DESIGN.md rests its "not
//! applicable" verdict: that yuvxyb touches no seam (thread, clock, I/O, RNG,
//! shared mutable state) whose outcome a simulator could own.
//!
//! Modes (argv[1]):
//!   seams    one pass through every public conversion with a counting global
//!            allocator and a counting `log::Log`; prints one line per call and
//!            brackets the pass with BEGIN/END markers so that `strace` output
//!            can be cut to exactly the conversions.
//!   threads  N threads share one `Arc<Yuv<_>>`/`Arc<Rgb>` and convert from the
//!            shared borrow; results must be bit-identical to the sequential
//!            result and the shared sources unchanged (run under Miri with
//!            seeded preemption by `applicability.sh --deep`).

use std::alloc::{GlobalAlloc, Layout, System};
use std::panic::{RefUnwindSafe, UnwindSafe};
use std::sync::atomic::{AtomicUsize, Ordering};
use std::sync::Arc;

use yuvxyb::{
    ColorPrimaries, Frame, Hsl, LinearRgb, MatrixCoefficients, Plane, Rgb,
    TransferCharacteristic, Xyb, Yuv, YuvConfig,
};

// ---------------------------------------------------------------- auto traits
// Compile-time: every public image type is a plain value. `RefUnwindSafe` is
// the stable witness that no `UnsafeCell` (Cell, RefCell, Mutex, Atomic*,
// OnceLock…) is reachable from it; `Sync` that `&T` may cross threads.
fn assert_plain_value<T: Send + Sync + Unpin + UnwindSafe + RefUnwindSafe + Clone + 'static>() {}
#[allow(dead_code)]
fn auto_trait_assertions() {
    assert_plain_value::<Yuv<u8>>();
    assert_plain_value::<Yuv<u16>>();
    assert_plain_value::<Rgb>();
    assert_plain_value::<LinearRgb>();
    assert_plain_value::<Xyb>();
    assert_plain_value::<Hsl>();
    assert_plain_value::<YuvConfig>();
}

// ---------------------------------------------------------- counting seams
struct CountingAlloc;
static ALLOCS: AtomicUsize = AtomicUsize::new(0);
// SAFETY: forwards to `System`; only adds a relaxed counter increment.
unsafe impl GlobalAlloc for CountingAlloc {
    unsafe fn alloc(&self, l: Layout) -> *mut u8 {
        ALLOCS.fetch_add(1, Ordering::Relaxed);
        System.alloc(l)
    }
    unsafe fn dealloc(&self, p: *mut u8, l: Layout) {
        System.dealloc(p, l)
    }
    unsafe fn realloc(&self, p: *mut u8, l: Layout, n: usize) -> *mut u8 {
        ALLOCS.fetch_add(1, Ordering::Relaxed);
        System.realloc(p, l, n)
    }
}
#[global_allocator]
static A: CountingAlloc = CountingAlloc;

struct CountingLog;
static LOGS: AtomicUsize = AtomicUsize::new(0);
impl log::Log for CountingLog {
    fn enabled(&self, _: &log::Metadata) -> bool {
        true
    }
    fn log(&self, _: &log::Record) {
        LOGS.fetch_add(1, Ordering::Relaxed);
    }
    fn flush(&self) {}
}
static LOGGER: CountingLog = CountingLog;

// ------------------------------------------------------------------ fixtures
const W: usize = 8;
const H: usize = 4;

fn cfg(bit_depth: u8, ss: (u8, u8)) -> YuvConfig {
    YuvConfig {
        bit_depth,
        subsampling_x: ss.0,
        subsampling_y: ss.1,
        full_range: false,
        matrix_coefficients: MatrixCoefficients::BT709,
        transfer_characteristics: TransferCharacteristic::BT1886,
        color_primaries: ColorPrimaries::BT709,
    }
}

fn frame_u8(ss: (u8, u8)) -> Frame<u8> {
    let (cw, ch) = (W >> ss.0, H >> ss.1);
    let mut f = Frame {
        planes: [
            Plane::new(W, H, 0, 0, 0, 0),
            Plane::new(cw, ch, ss.0 as usize, ss.1 as usize, 0, 0),
            Plane::new(cw, ch, ss.0 as usize, ss.1 as usize, 0, 0),
        ],
    };
    // deterministic, distinct-ish legal-range content (no RNG in the probe)
    for (pi, p) in f.planes.iter_mut().enumerate() {
        for (i, v) in p.data_origin_mut().iter_mut().enumerate() {
            *v = (16 + ((i * 37 + pi * 101) % 200)) as u8;
        }
    }
    f
}

fn frame_u16(ss: (u8, u8)) -> Frame<u16> {
    let (cw, ch) = (W >> ss.0, H >> ss.1);
    let mut f = Frame {
        planes: [
            Plane::new(W, H, 0, 0, 0, 0),
            Plane::new(cw, ch, ss.0 as usize, ss.1 as usize, 0, 0),
            Plane::new(cw, ch, ss.0 as usize, ss.1 as usize, 0, 0),
        ],
    };
    for (pi, p) in f.planes.iter_mut().enumerate() {
        for (i, v) in p.data_origin_mut().iter_mut().enumerate() {
            *v = (64 + ((i * 149 + pi * 401) % 800)) as u16;
        }
    }
    f
}

fn rgb_pixels() -> Vec<[f32; 3]> {
    (0..W * H)
        .map(|i| {
            let t = i as f32 / (W * H) as f32;
            [t, 1.0 - t, (t * 3.0) % 1.0]
        })
        .collect()
}

// --------------------------------------------------------------- mode: seams
fn measured<R>(name: &str, f: impl FnOnce() -> R) -> R {
    let (a0, l0) = (ALLOCS.load(Ordering::Relaxed), LOGS.load(Ordering::Relaxed));
    let r = f();
    let (a1, l1) = (ALLOCS.load(Ordering::Relaxed), LOGS.load(Ordering::Relaxed));
    // One write(2) per line, issued AFTER the measured call.
    println!("CALL {name} allocs={} logs={}", a1 - a0, l1 - l0);
    r
}

fn seams() {
    log::set_logger(&LOGGER).unwrap();
    log::set_max_level(log::LevelFilter::Trace);
    let ss = (1, 1);
    let spec = cfg(8, ss);
    let mut unspec = spec;
    unspec.matrix_coefficients = MatrixCoefficients::Unspecified;
    unspec.transfer_characteristics = TransferCharacteristic::Unspecified;
    unspec.color_primaries = ColorPrimaries::Unspecified;

    let f1 = frame_u8(ss);
    let f2 = frame_u8(ss);
    let f3 = frame_u16(ss);
    let px = rgb_pixels();
    let px2 = rgb_pixels();

    println!("BEGIN-CONVERSIONS");
    let yuv = measured("Yuv::<u8>::new(specified)", || Yuv::new(f1, spec).unwrap());
    let _ = measured("Yuv::<u8>::new(unspecified x3)", || Yuv::new(f2, unspec).unwrap());
    let yuv16 = measured("Yuv::<u16>::new(specified,10bit)", || Yuv::new(f3, cfg(10, ss)).unwrap());
    let rgb = measured("Rgb::try_from(&Yuv<u8>)", || Rgb::try_from(&yuv).unwrap());
    let _ = measured("Rgb::try_from(&Yuv<u16>)", || Rgb::try_from(&yuv16).unwrap());
    let _ = measured("LinearRgb::try_from(&Yuv<u8>)", || LinearRgb::try_from(&yuv).unwrap());
    let xyb0 = measured("Xyb::try_from(&Yuv<u8>)", || Xyb::try_from(&yuv).unwrap());
    let _ = measured("Yuv::<u8>::try_from((&Rgb,cfg))", || Yuv::<u8>::try_from((&rgb, spec)).unwrap());
    let lin = measured("LinearRgb::try_from(Rgb)", || LinearRgb::try_from(rgb).unwrap());
    let xyb = measured("Xyb::from(LinearRgb)", || Xyb::from(lin));
    let lin = measured("LinearRgb::from(Xyb)", || LinearRgb::from(xyb));
    let hsl = measured("Hsl::from(LinearRgb)", || Hsl::from(lin));
    let lin = measured("LinearRgb::from(Hsl)", || LinearRgb::from(hsl));
    let rgb = measured("Rgb::try_from((LinearRgb,t,p))", || {
        Rgb::try_from((lin, TransferCharacteristic::SRGB, ColorPrimaries::BT709)).unwrap()
    });
    let _ = measured("Yuv::<u16>::try_from((Rgb,cfg10))", || Yuv::<u16>::try_from((rgb, cfg(10, ss))).unwrap());
    let _ = measured("Yuv::<u8>::try_from((Xyb,cfg))", || Yuv::<u8>::try_from((xyb0, spec)).unwrap());
    let rgbu = measured("Rgb::new(unspecified x2)", || {
        Rgb::new(px, W, H, TransferCharacteristic::Unspecified, ColorPrimaries::Unspecified).unwrap()
    });
    let linu = measured("LinearRgb::try_from(Rgb) #2", || LinearRgb::try_from(rgbu).unwrap());
    let _ = measured("Rgb::try_from((LinearRgb,Unspec,Unspec))", || {
        Rgb::try_from((linu, TransferCharacteristic::Unspecified, ColorPrimaries::Unspecified)).unwrap()
    });
    let _ = measured("Xyb::new", || Xyb::new(px2, W, H).unwrap());
    let _ = measured("yuvxyb_math::{cbrtf,powf,expf}", || {
        yuvxyb_math::cbrtf(0.3) + yuvxyb_math::powf(0.3, 2.4) + yuvxyb_math::expf(0.3)
    });
    println!("END-CONVERSIONS");
}

// ------------------------------------------------------------- mode: threads
fn bits(v: &[[f32; 3]]) -> Vec<[u32; 3]> {
    v.iter().map(|p| [p[0].to_bits(), p[1].to_bits(), p[2].to_bits()]).collect()
}
fn planes<T: yuvxyb::Pixel>(y: &Yuv<T>) -> Vec<Vec<T>> {
    y.data().iter().map(|p| p.data_origin().to_vec()).collect()
}

fn threads(n: usize) {
    // Two differently configured shared sources, used alternately by the
    // threads, so that any memo/cache keyed on configuration is thrashed
    // (a warm, read-only cache would hide a racy one).
    let ss = (1, 1);
    let specs = [cfg(8, ss), YuvConfig { full_range: true, matrix_coefficients: MatrixCoefficients::ST170M, ..cfg(8, (0, 0)) }];
    let yuvs = [
        Arc::new(Yuv::new(frame_u8(ss), specs[0]).unwrap()),
        Arc::new(Yuv::new(frame_u8((0, 0)), specs[1]).unwrap()),
    ];
    let rgb = Arc::new(
        Rgb::new(rgb_pixels(), W, H, TransferCharacteristic::SRGB, ColorPrimaries::BT709).unwrap(),
    );
    let before_yuv = [planes(&yuvs[0]), planes(&yuvs[1])];
    let before_rgb = bits(rgb.data());
    let job = |yuv: &Yuv<u8>, rgb: &Rgb, spec: YuvConfig| {
        let xyb = Xyb::try_from(yuv).unwrap();
        let xb = bits(xyb.data());
        let back = planes(&Yuv::<u8>::try_from((xyb, spec)).unwrap());
        let enc = planes(&Yuv::<u8>::try_from((rgb, spec)).unwrap());
        let hsl = bits(Hsl::from(LinearRgb::try_from(yuv).unwrap()).data());
        (xb, back, enc, hsl)
    };
    // sequential reference
    let reference = [job(&yuvs[0], &rgb, specs[0]), job(&yuvs[1], &rgb, specs[1])];

    let hs: Vec<_> = (0..n)
        .map(|i| {
            let (yuv, rgb, spec) = (Arc::clone(&yuvs[i % 2]), Arc::clone(&rgb), specs[i % 2]);
            std::thread::spawn(move || (i % 2, job(&yuv, &rgb, spec)))
        })
        .collect();
    let mut ok = true;
    for h in hs {
        let (k, got) = h.join().unwrap();
        ok &= got == reference[k];
    }
    ok &= planes(&yuvs[0]) == before_yuv[0] && planes(&yuvs[1]) == before_yuv[1];
    ok &= bits(rgb.data()) == before_rgb;
    if ok {
        println!("THREADS-OK n={n}");
    } else {
        println!("THREADS-DIVERGED n={n}");
        std::process::exit(4);
    }
}

fn main() {
    let mode = std::env::args().nth(1).unwrap_or_else(|| "seams".into());
    match mode.as_str() {
        "seams" => seams(),
        "threads" => threads(
            std::env::args().nth(2).and_then(|s| s.parse().ok()).unwrap_or(3),
        ),
        _ => {
            eprintln!("usage: probe seams|threads [n]");
            std::process::exit(2);
        }
    }
}
