//! Applicability-audit probe for the deterministic-simulation family.
//!
//! This program decides no property. It re-measures, against the tree it is
//! built from, the premise on which /verif/DESIGN.md rests its "not
//! applicable" verdict: that yuvxyb touches no seam (thread, clock, I/O, RNG,
//! shared mutable state) whose outcome a simulator could own.
//!
//! Modes (argv[1]):
//!   seams    one pass through every public conversion with a counting global
//!            allocator and a counting `log::Log`; prints one line per call and
//!            brackets the pass with BEGIN/END markers so that `strace` output
//!            can be cut to exactly the conversions.
//!   threads  N threads share one `Arc<Yuv<_>>`/`Arc<Rgb>` and convert from the
//!            shared borrow; results must be bit-identical to the sequential
//!            result and the shared sources unchanged (run under Miri with
//!            seeded preemption by `applicability.sh --deep`).

use std::alloc::{GlobalAlloc, Layout, System};
use std::panic::{RefUnwindSafe, UnwindSafe};
use std::sync::atomic::{AtomicUsize, Ordering};
use std::sync::Arc;

use yuvxyb::{
    ColorPrimaries, Frame, Hsl, LinearRgb, MatrixCoefficients, Plane, Rgb,
    TransferCharacteristic, Xyb, Yuv, YuvConfig,
};

// ---------------------------------------------------------------- auto traits
// Compile-time: every public image type is a plain value. `RefUnwindSafe` is
// the stable witness that no `UnsafeCell` (Cell, RefCell, Mutex, Atomic*,
// OnceLock…) is reachable from it; `Sync` that `&T` may cross threads.
fn assert_plain_value<T: Send + Sync + Unpin + UnwindSafe + RefUnwindSafe + Clone + 'static>() {}
#[allow(dead_code)]
fn auto_trait_assertions() {
    assert_plain_value::<Yuv<u8>>();
    assert_plain_value::<Yuv<u16>>();
    assert_plain_value::<Rgb>();
    assert_plain_value::<LinearRgb>();
    assert_plain_value::<Xyb>();
    assert_plain_value::<Hsl>();
    assert_plain_value::<YuvConfig>();
}

// ---------------------------------------------------------- counting seams
struct CountingAlloc;
static ALLOCS: AtomicUsize = AtomicUsize::new(0);
// SAFETY: forwards to `System`; only adds a relaxed counter increment.
unsafe impl GlobalAlloc for CountingAlloc {
    unsafe fn alloc(&self, l: Layout) -> *mut u8 {
        ALLOCS.fetch_add(1, Ordering::Relaxed);
        System.alloc(l)
    }
    unsafe fn dealloc(&self, p: *mut u8, l: Layout) {
        System.dealloc(p, l)
    }
    unsafe fn realloc(&self, p: *mut u8, l: Layout, n: usize) -> *mut u8 {
        ALLOCS.fetch_add(1, Ordering::Relaxed);
        System.realloc(p, l, n)
    }
}
#[global_allocator]
static A: CountingAlloc = CountingAlloc;

struct CountingLog;
static LOGS: AtomicUsize = AtomicUsize::new(0);
impl log::Log for CountingLog {
    fn enabled(&self, _: &log::Metadata) -> bool {
        true
    }
    fn log(&self, _: &log::Record) {
        LOGS.fetch_add(1, Ordering::Relaxed);
    }
    fn flush(&self) {}
}
static LOGGER: CountingLog = CountingLog;

// ------------------------------------------------------------------ fixtures
const W: usize = 8;
const H: usize = 4;

fn cfg(bit_depth: u8, ss: (u8, u8)) -> YuvConfig {
    YuvConfig {
        bit_depth,
        subsampling_x: ss.0,
        subsampling_y: ss.1,
        full_range: false,
        matrix_coefficients: MatrixCoefficients::BT709,
        transfer_characteristics: TransferCharacteristic::BT1886,
        color_primaries: ColorPrimaries::BT709,
    }
}

fn frame_u8(ss: (u8, u8)) -> Frame<u8> {
    let (cw, ch) = (W >> ss.0, H >> ss.1);
    let mut f = Frame {
        planes: [
            Plane::new(W, H, 0, 0, 0, 0),
            Plane::new(cw, ch, ss.0 as usize, ss.1 as usize, 0, 0),
            Plane::new(cw, ch, ss.0 as usize, ss.1 as usize, 0, 0),
        ],
    };
    // deterministic, distinct-ish legal-range content (no RNG in the probe)
    for (pi, p) in f.planes.iter_mut().enumerate() {
        for (i, v) in p.data_origin_mut().iter_mut().enumerate() {
            *v = (16 + ((i * 37 + pi * 101) % 200)) as u8;
        }
    }
    f
}

fn frame_u16(ss: (u8, u8)) -> Frame<u16> {
    let (cw, ch) = (W >> ss.0, H >> ss.1);
    let mut f = Frame {
        planes: [
            Plane::new(W, H, 0, 0, 0, 0),
            Plane::new(cw, ch, ss.0 as usize, ss.1 as usize, 0, 0),
            Plane::new(cw, ch, ss.0 as usize, ss.1 as usize, 0, 0),
        ],
    };
    for (pi, p) in f.planes.iter_mut().enumerate() {
        for (i, v) in p.data_origin_mut().iter_mut().enumerate() {
            *v = (64 + ((i * 149 + pi * 401) % 800)) as u16;
        }
    }
    f
}

fn rgb_pixels() -> Vec<[f32; 3]> {
    (0..W * H)
        .map(|i| {
            let t = i as f32 / (W * H) as f32;
            [t, 1.0 - t, (t * 3.0) % 1.0]
        })
        .collect()
}

// --------------------------------------------------------------- mode: seams
fn measured<R>(name: &str, f: impl FnOnce() -> R) -> R {
    let (a0, l0) = (ALLOCS.load(Ordering::Relaxed), LOGS.load(Ordering::Relaxed));
    let r = f();
    let (a1, l1) = (ALLOCS.load(Ordering::Relaxed), LOGS.load(Ordering::Relaxed));
    // One write(2) per line, issued AFTER the measured call.
    println!("CALL {name} allocs={} logs={}", a1 - a0, l1 - l0);
    r
}

fn seams() {
    log::set_logger(&LOGGER).unwrap();
    log::set_max_level(log::LevelFilter::Trace);
    let ss = (1, 1);
    let spec = cfg(8, ss);
    let mut unspec = spec;
    unspec.matrix_coefficients = MatrixCoefficients::Unspecified;
    unspec.transfer_characteristics = TransferCharacteristic::Unspecified;
    unspec.color_primaries = ColorPrimaries::Unspecified;

    let f1 = frame_u8(ss);
    let f2 = frame_u8(ss);
    let f3 = frame_u16(ss);
    let px = rgb_pixels();
    let px2 = rgb_pixels();

    println!("BEGIN-CONVERSIONS");
    let yuv = measured("Yuv::<u8>::new(specified)", || Yuv::new(f1, spec).unwrap());
    let _ = measured("Yuv::<u8>::new(unspecified x3)", || Yuv::new(f2, unspec).unwrap());
    let yuv16 = measured("Yuv::<u16>::new(specified,10bit)", || Yuv::new(f3, cfg(10, ss)).unwrap());
    let rgb = measured("Rgb::try_from(&Yuv<u8>)", || Rgb::try_from(&yuv).unwrap());
    let _ = measured("Rgb::try_from(&Yuv<u16>)", || Rgb::try_from(&yuv16).unwrap());
    let _ = measured("LinearRgb::try_from(&Yuv<u8>)", || LinearRgb::try_from(&yuv).unwrap());
    let xyb0 = measured("Xyb::try_from(&Yuv<u8>)", || Xyb::try_from(&yuv).unwrap());
    let _ = measured("Yuv::<u8>::try_from((&Rgb,cfg))", || Yuv::<u8>::try_from((&rgb, spec)).unwrap());
    let lin = measured("LinearRgb::try_from(Rgb)", || LinearRgb::try_from(rgb).unwrap());
    let xyb = measured("Xyb::from(LinearRgb)", || Xyb::from(lin));
    let lin = measured("LinearRgb::from(Xyb)", || LinearRgb::from(xyb));
    let hsl = measured("Hsl::from(LinearRgb)", || Hsl::from(lin));
    let lin = measured("LinearRgb::from(Hsl)", || LinearRgb::from(hsl));
    let rgb = measured("Rgb::try_from((LinearRgb,t,p))", || {
        Rgb::try_from((lin, TransferCharacteristic::SRGB, ColorPrimaries::BT709)).unwrap()
    });
    let _ = measured("Yuv::<u16>::try_from((Rgb,cfg10))", || Yuv::<u16>::try_from((rgb, cfg(10, ss))).unwrap());
    let _ = measured("Yuv::<u8>::try_from((Xyb,cfg))", || Yuv::<u8>::try_from((xyb0, spec)).unwrap());
    let rgbu = measured("Rgb::new(unspecified x2)", || {
        Rgb::new(px, W, H, TransferCharacteristic::Unspecified, ColorPrimaries::Unspecified).unwrap()
    });
    let linu = measured("LinearRgb::try_from(Rgb) #2", || LinearRgb::try_from(rgbu).unwrap());
    let _ = measured("Rgb::try_from((LinearRgb,Unspec,Unspec))", || {
        Rgb::try_from((linu, TransferCharacteristic::Unspecified, ColorPrimaries::Unspecified)).unwrap()
    });
    let _ = measured("Xyb::new", || Xyb::new(px2, W, H).unwrap());
    let _ = measured("yuvxyb_math::{cbrtf,powf,expf}", || {
        yuvxyb_math::cbrtf(0.3) + yuvxyb_math::powf(0.3, 2.4) + yuvxyb_math::expf(0.3)
    });
    println!("END-CONVERSIONS");
}

// ------------------------------------------------------------- mode: threads
fn bits(v: &[[f32; 3]]) -> Vec<[u32; 3]> {
    v.iter().map(|p| [p[0].to_bits(), p[1].to_bits(), p[2].to_bits()]).collect()
}
fn planes<T: yuvxyb::Pixel>(y: &Yuv<T>) -> Vec<Vec<T>> {
    y.data().iter().map(|p| p.data_origin().to_vec()).collect()
}

fn threads(n: usize, seed: u64, len: usize) {
    // Shared immutable sources converted from the shared borrow by all threads…
    let ss = (1, 1);
    let specs = [cfg(8, ss), YuvConfig { full_range: true, matrix_coefficients: MatrixCoefficients::ST170M, ..cfg(8, (0, 0)) }];
    let yuvs = [
        Arc::new(Yuv::new(frame_u8(ss), specs[0]).unwrap()),
        Arc::new(Yuv::new(frame_u8((0, 0)), specs[1]).unwrap()),
    ];
    let rgb = Arc::new(
        Rgb::new(rgb_pixels(), W, H, TransferCharacteristic::SRGB, ColorPrimaries::BT709).unwrap(),
    );
    let before_yuv = [planes(&yuvs[0]), planes(&yuvs[1])];
    let before_rgb = bits(rgb.data());
    let job = |yuv: &Yuv<u8>, rgb: &Rgb, spec: YuvConfig| {
        let xyb = Xyb::try_from(yuv).unwrap();
        let xb = bits(xyb.data());
        let back = planes(&Yuv::<u8>::try_from((xyb, spec)).unwrap());
        let enc = planes(&Yuv::<u8>::try_from((rgb, spec)).unwrap());
        let hsl = bits(Hsl::from(LinearRgb::try_from(yuv).unwrap()).data());
        (xb, back, enc, hsl)
    };
    // …plus, per thread, a seeded sequence of self-contained ops over every
    // metadata value, so that threads are concurrently inside differently
    // configured conversions (a cache keyed on configuration is thrashed, not
    // just read). Sequential reference first, on this thread.
    let reference = [job(&yuvs[0], &rgb, specs[0]), job(&yuvs[1], &rgb, specs[1])];
    let seqs: Vec<Vec<usize>> = (0..n)
        .map(|i| {
            let mut x = (seed.wrapping_mul(1000) + i as u64 + 1).wrapping_mul(0x9e37_79b9_7f4a_7c15) | 1;
            (0..len)
                .map(|_| {
                    x ^= x << 13;
                    x ^= x >> 7;
                    x ^= x << 17;
                    (x >> 11) as usize % N_OPS
                })
                .collect()
        })
        .collect();
    let mut ref_ops = std::collections::BTreeMap::new();
    for id in seqs.iter().flatten() {
        ref_ops.entry(*id).or_insert_with(|| run_op(*id));
    }
    let ref_ops = Arc::new(ref_ops);

    let hs: Vec<_> = seqs
        .into_iter()
        .enumerate()
        .map(|(i, seq)| {
            let (yuv, rgb, spec) = (Arc::clone(&yuvs[i % 2]), Arc::clone(&rgb), specs[i % 2]);
            let ref_ops = Arc::clone(&ref_ops);
            std::thread::spawn(move || {
                let mut bad = None;
                for (step, id) in seq.iter().enumerate() {
                    let d = run_op(*id);
                    if d != ref_ops[id] && bad.is_none() {
                        bad = Some((step, *id));
                    }
                }
                (i % 2, job(&yuv, &rgb, spec), bad)
            })
        })
        .collect();
    let mut ok = true;
    for (t, h) in hs.into_iter().enumerate() {
        let (k, got, bad) = h.join().unwrap();
        if got != reference[k] {
            println!("THREADS-DIVERGED thread={t} shared-source conversion differs from sequential reference");
            ok = false;
        }
        if let Some((step, id)) = bad {
            println!("THREADS-DIVERGED thread={t} step={step} op={id} differs from sequential reference");
            ok = false;
        }
    }
    if planes(&yuvs[0]) != before_yuv[0] || planes(&yuvs[1]) != before_yuv[1] || bits(rgb.data()) != before_rgb {
        println!("THREADS-DIVERGED shared source modified");
        ok = false;
    }
    if ok {
        println!("THREADS-OK n={n} seed={seed} len={len}");
    } else {
        std::process::exit(4);
    }
}

// ------------------------------------------------- modes: ops / iso / hist
// Premise re-checked here (DESIGN.md §4, C07): "every call's result is a
// function of its arguments alone; call histories collapse to inputs". Each
// op below is self-contained (builds its input with constructors, performs
// one conversion, returns a digest of the output bits). `iso k` runs op k as
// the only library activity of a fresh process; `hist seed len` runs a
// seeded sequence of ops in one process (on the main thread and, for odd
// steps, on a long-lived worker thread so thread-local state accumulates
// there too). The script compares every in-history digest with the isolated
// one.
fn fnv(h: &mut u64, bytes: &[u8]) {
    for b in bytes {
        *h ^= u64::from(*b);
        *h = h.wrapping_mul(0x100_0000_01b3);
    }
}
fn dig_f(v: &[[f32; 3]], w: usize, h: usize) -> u64 {
    let mut d = 0xcbf2_9ce4_8422_2325u64;
    fnv(&mut d, &(w as u64).to_le_bytes());
    fnv(&mut d, &(h as u64).to_le_bytes());
    for p in v {
        for c in p {
            fnv(&mut d, &c.to_bits().to_le_bytes());
        }
    }
    d
}
fn dig_y<T: yuvxyb::Pixel>(y: &Yuv<T>) -> u64 {
    let mut d = 0xcbf2_9ce4_8422_2325u64;
    fnv(&mut d, format!("{:?}", y.config()).as_bytes());
    for p in y.data() {
        // logical samples only (row by row), so the digest is layout-free
        for row in 0..p.cfg.height {
            for col in 0..p.cfg.width {
                let v: u32 = yuvxyb::CastFromPrimitive::cast_from(p.p(col, row));
                fnv(&mut d, &v.to_le_bytes());
            }
        }
    }
    d
}

#[derive(Clone, Copy)]
struct Geo {
    w: usize,
    h: usize,
    ss: (u8, u8),
    pad: usize,
}
const GEOS: [Geo; 6] = [
    Geo { w: 8, h: 4, ss: (1, 1), pad: 0 },
    Geo { w: 8, h: 4, ss: (1, 1), pad: 16 }, // same shape, different stride
    Geo { w: 8, h: 4, ss: (0, 0), pad: 0 },
    Geo { w: 6, h: 2, ss: (1, 0), pad: 3 },
    Geo { w: 12, h: 8, ss: (1, 1), pad: 0 },
    Geo { w: 4, h: 8, ss: (0, 0), pad: 1 }, // same pixel count as 8x4
];
use MatrixCoefficients as M;
use TransferCharacteristic as Tc;
use ColorPrimaries as Cp;
// every enum value except Unspecified (unsupported ones yield Err, digested as such)
const MATS: [M; 14] = [
    M::BT709, M::ST170M, M::BT2020NonConstantLuminance, M::Identity, M::BT470M, M::BT470BG,
    M::ST240M, M::YCgCo, M::BT2020ConstantLuminance, M::ST2085,
    M::ChromaticityDerivedNonConstantLuminance, M::ChromaticityDerivedConstantLuminance,
    M::ICtCp, M::Reserved,
];
const TRCS: [Tc; 18] = [
    Tc::BT1886, Tc::SRGB, Tc::PerceptualQuantizer, Tc::HybridLogGamma, Tc::BT470M, Tc::BT470BG,
    Tc::ST170M, Tc::ST240M, Tc::Linear, Tc::Logarithmic100, Tc::Logarithmic316, Tc::XVYCC,
    Tc::BT2020Ten, Tc::BT2020Twelve, Tc::BT1361E, Tc::ST428, Tc::Reserved0, Tc::Reserved,
];
const PRIS: [Cp; 13] = [
    Cp::BT709, Cp::BT2020, Cp::ST170M, Cp::BT470M, Cp::BT470BG, Cp::ST240M, Cp::Film,
    Cp::P3DCI, Cp::P3Display, Cp::Tech3213, Cp::ST428, Cp::Reserved0, Cp::Reserved,
];
const VARIANTS: usize = 10; // metadata variants per (kind, geometry)

fn mix(k: usize) -> usize {
    let mut x = (k as u64 + 1).wrapping_mul(0x9e37_79b9_7f4a_7c15);
    x ^= x >> 29;
    x = x.wrapping_mul(0xbf58_476d_1ce4_e5b9);
    x ^= x >> 32;
    x as usize
}
// Two of three variants stay inside the commonly supported sets so that most
// ops perform a real conversion; the third ranges over every enum value.
fn pick<Tt: Copy>(all: &[Tt], common: usize, k: usize, salt: usize) -> Tt {
    let m = mix(k * 7 + salt);
    if k % 3 == 2 { all[m % all.len()] } else { all[m % common] }
}
fn gcfg(g: Geo, bd: u8, k: usize) -> YuvConfig {
    YuvConfig {
        bit_depth: bd,
        subsampling_x: g.ss.0,
        subsampling_y: g.ss.1,
        full_range: mix(k) % 2 == 1,
        matrix_coefficients: pick(&MATS, 13, k, 1),
        transfer_characteristics: pick(&TRCS, 14, k, 2),
        color_primaries: pick(&PRIS, 10, k, 3),
    }
}
fn gframe<T: yuvxyb::Pixel>(g: Geo, bd: u8, k: usize) -> Frame<T> {
    let (cw, ch) = (g.w >> g.ss.0, g.h >> g.ss.1);
    let mut f = Frame {
        planes: [
            Plane::new(g.w, g.h, 0, 0, g.pad, g.pad),
            Plane::new(cw, ch, g.ss.0 as usize, g.ss.1 as usize, g.pad, g.pad),
            Plane::new(cw, ch, g.ss.0 as usize, g.ss.1 as usize, g.pad, g.pad),
        ],
    };
    let (lo, span) = (16usize << (bd - 8), 200usize << (bd - 8));
    for (pi, p) in f.planes.iter_mut().enumerate() {
        let (stride, xo, yo, w, h) = (p.cfg.stride, p.cfg.xorigin, p.cfg.yorigin, p.cfg.width, p.cfg.height);
        for y in 0..h {
            for x in 0..w {
                let v = lo + ((x * 37 + y * 101 + pi * 59 + k * 13) * 7) % span;
                p.data[(y + yo) * stride + x + xo] = T::cast_from(v as u16);
            }
        }
    }
    f
}
fn gpixels(g: Geo, k: usize) -> Vec<[f32; 3]> {
    let n = g.w * g.h;
    (0..n)
        .map(|i| {
            let t = (i * 7 + k) as f32 / (n * 7 + k) as f32;
            [t, 1.0 - t * 0.9, (t * 3.3) % 1.0]
        })
        .collect()
}

const KINDS: usize = 12;
const N_OPS: usize = KINDS * GEOS.len() * VARIANTS;

fn dig_err<E: std::fmt::Debug>(e: &E) -> u64 {
    let mut d = 0x1234_5678_9abc_def0u64;
    fnv(&mut d, format!("{e:?}").as_bytes());
    d
}
fn df<I>(r: Result<I, yuvxyb::ConversionError>, f: impl FnOnce(&I) -> (&[[f32; 3]], usize, usize)) -> u64 {
    match r {
        Ok(i) => {
            let (d, w, h) = f(&i);
            dig_f(d, w, h)
        }
        Err(e) => dig_err(&e),
    }
}
fn dy<T: yuvxyb::Pixel>(r: Result<Yuv<T>, yuvxyb::ConversionError>) -> u64 {
    match r {
        Ok(y) => dig_y(&y),
        Err(e) => dig_err(&e),
    }
}

fn run_op(id: usize) -> u64 {
    let g = GEOS[id % GEOS.len()];
    let kind = (id / GEOS.len()) % KINDS;
    let k = id; // varies the metadata with the op id
    let (t, p) = (pick(&TRCS, 14, k, 4), pick(&PRIS, 10, k, 5));
    match kind {
        0 => df(Rgb::try_from(&Yuv::<u8>::new(gframe(g, 8, k), gcfg(g, 8, k)).unwrap()), |r| (r.data(), r.width(), r.height())),
        1 => df(Rgb::try_from(&Yuv::<u16>::new(gframe(g, 10, k), gcfg(g, 10, k)).unwrap()), |r| (r.data(), r.width(), r.height())),
        2 => df(LinearRgb::try_from(&Yuv::<u16>::new(gframe(g, 8, k), gcfg(g, 8, k)).unwrap()), |r| (r.data(), r.width(), r.height())),
        3 => df(Xyb::try_from(Yuv::<u8>::new(gframe(g, 8, k), gcfg(g, 8, k)).unwrap()), |r| (r.data(), r.width(), r.height())),
        4 => {
            let rgb = Rgb::new(gpixels(g, k), g.w, g.h, t, p).unwrap();
            dy(Yuv::<u8>::try_from((&rgb, gcfg(g, 8, k))))
        }
        5 => {
            let rgb = Rgb::new(gpixels(g, k), g.w, g.h, t, p).unwrap();
            dy(Yuv::<u16>::try_from((rgb, gcfg(g, 12, k))))
        }
        6 => {
            let xyb = Xyb::from(LinearRgb::new(gpixels(g, k), g.w, g.h).unwrap());
            dy(Yuv::<u16>::try_from((xyb, gcfg(g, 10, k))))
        }
        7 => df(LinearRgb::try_from(Rgb::new(gpixels(g, k), g.w, g.h, t, p).unwrap()), |r| (r.data(), r.width(), r.height())),
        8 => df(Rgb::try_from((LinearRgb::new(gpixels(g, k), g.w, g.h).unwrap(), t, p)), |r| (r.data(), r.width(), r.height())),
        9 => {
            let x = Xyb::from(LinearRgb::new(gpixels(g, k), g.w, g.h).unwrap());
            let a = dig_f(x.data(), x.width(), x.height());
            let l = LinearRgb::from(x);
            a ^ dig_f(l.data(), l.width(), l.height()).rotate_left(17)
        }
        10 => {
            let x = Hsl::from(LinearRgb::new(gpixels(g, k), g.w, g.h).unwrap());
            let a = dig_f(x.data(), x.width(), x.height());
            let l = LinearRgb::from(x);
            a ^ dig_f(l.data(), l.width(), l.height()).rotate_left(17)
        }
        _ => {
            // Unspecified metadata: the resolved config must not depend on history either
            let mut c = gcfg(g, 8, k);
            if mix(k) & 2 != 0 { c.matrix_coefficients = M::Unspecified; }
            if mix(k) & 4 != 0 { c.color_primaries = Cp::Unspecified; }
            if mix(k) & 24 != 8 { c.transfer_characteristics = Tc::Unspecified; }
            let y = Yuv::<u8>::new(gframe(g, 8, k), c).unwrap();
            dig_y(&y) ^ df(Rgb::try_from(&y), |r| (r.data(), r.width(), r.height())).rotate_left(9)
        }
    }
}

fn hist(seed: u64, len: usize) {
    use std::sync::mpsc;
    // long-lived worker: receives op ids, returns digests (a fixed hand-off,
    // one request in flight at a time, so the history is a total order)
    let (tx, rx) = mpsc::channel::<usize>();
    let (rtx, rrx) = mpsc::channel::<u64>();
    let worker = std::thread::spawn(move || {
        for id in rx {
            rtx.send(run_op(id)).unwrap();
        }
    });
    let mut x = seed.wrapping_mul(0x9e37_79b9_7f4a_7c15) | 1;
    for step in 0..len {
        x ^= x << 13;
        x ^= x >> 7;
        x ^= x << 17;
        let id = (x >> 11) as usize % N_OPS;
        let d = if (x >> 5) & 1 == 1 {
            tx.send(id).unwrap();
            rrx.recv().unwrap()
        } else {
            run_op(id)
        };
        println!("OP {id} {d:016x} step={step}");
    }
    drop(tx);
    worker.join().unwrap();
}

fn main() {
    let mode = std::env::args().nth(1).unwrap_or_else(|| "seams".into());
    match mode.as_str() {
        "seams" => seams(),
        "threads" => {
            let arg = |i: usize, d: u64| std::env::args().nth(i).and_then(|s| s.parse().ok()).unwrap_or(d);
            threads(arg(2, 3) as usize, arg(3, 0), arg(4, 50) as usize)
        }
        "nops" => println!("{N_OPS}"),
        "iso" => {
            let id: usize = std::env::args().nth(2).and_then(|s| s.parse().ok()).expect("iso <id>");
            println!("OP {id} {:016x}", run_op(id));
        }
        "hist" => {
            let seed = std::env::args().nth(2).and_then(|s| s.parse().ok()).unwrap_or(0);
            let len = std::env::args().nth(3).and_then(|s| s.parse().ok()).unwrap_or(200);
            hist(seed, len);
        }
        _ => {
            eprintln!("usage: probe seams|threads [n seed len]|nops|iso <id>|hist <seed> <len>");
            std::process::exit(2);
        }
    }
}
