#!/usr/bin/env bash
# Applicability audit for the deterministic-simulation family (round 1; audit/ROUND1-DESIGN.md
# §2, §7; kept in round 2 as the premise tripwire behind DESIGN.md §0 and §8).
#
# This is NOT a property check. It is not listed under MANIFEST.checks, it
# never prints "VIOLATION", and it says nothing about whether C01-C20 hold.
# It re-checks, against /repo's CURRENT working tree, the premise on which the
# "not applicable" verdict for all 20 properties rests: that yuvxyb has no
# thread, task, lock, atomic, clock, timer, I/O handle, RNG, static, cache or
# interior mutability for a simulator to own.
#
#   exit 0  PREMISE-HOLDS
#   exit 3  PREMISE-CHANGED: <what appeared>   (DESIGN.md §8 says which
#           properties then become simulation targets)
#   exit 2  the audit itself could not run (build failure, missing tool)
#
# usage: audit/applicability.sh [--deep] [--repo <dir>] [--keep]
#   --deep   additionally run the shared-borrow thread probe under Miri with
#            seeded preemption (VERIF_SEED picks the first of 32 seeds)
#   --repo   audit another checkout (used to test the tripwire on scratch
#            worktrees); default /repo
set -u
export CARGO_NET_OFFLINE=true
REPO=/repo
DEEP=0
KEEP=0
while [ $# -gt 0 ]; do
  case "$1" in
    --deep) DEEP=1 ;;
    --keep) KEEP=1 ;;
    --repo) shift; REPO=$(cd "$1" && pwd) ;;
    *) echo "usage: $0 [--deep] [--repo <dir>] [--keep]" >&2; exit 2 ;;
  esac
  shift
done
HERE=$(cd "$(dirname "$0")" && pwd)
SEED=${VERIF_SEED:-0}
SCRATCH=$(mktemp -d "${TMPDIR:-/tmp}/yuvxyb-audit.XXXXXX") || exit 2
cleanup() { [ "$KEEP" = 1 ] || rm -rf "$SCRATCH"; }
trap cleanup EXIT

changed=()
# Allocation counts per call as audited in DESIGN.md §2.2 (Cargo.lock pins the
# dependency versions these depend on).
audited_allocs() {
  case "$1" in
    "Rgb::try_from(&Yuv<u8>)"|"Rgb::try_from(&Yuv<u16>)"|"LinearRgb::try_from(&Yuv<u8>)"|"Xyb::try_from(&Yuv<u8>)") echo 1 ;;
    "Yuv::<u8>::try_from((&Rgb,cfg))"|"Yuv::<u16>::try_from((Rgb,cfg10))"|"Yuv::<u8>::try_from((Xyb,cfg))") echo 4 ;;
    *) echo 0 ;;
  esac
}
note() { echo "  $*"; }
flag() { changed+=("$*"); echo "  !! $*"; }
die()  { echo "AUDIT-ERROR: $*"; exit 2; }

echo "applicability audit of $REPO (seed $SEED)"

# ---------------------------------------------------------------- 1. tokens
# Non-test library code only: every `#[cfg(test)] mod tests` in this crate is
# the last item of its file, so cut from that attribute to EOF. Comments are
# stripped so prose ("thread", "static") cannot trip the scan.
echo "[1/5] token scan of non-test sources"
# src/verif.rs exists only under the off-by-default `verif-hooks` feature (the simulator's yield
# hook and index assertions); the shipped library does not contain it.
SRC_FILES=$(find "$REPO/src" "$REPO/yuvxyb-math/src" -name '*.rs' ! -path "$REPO/src/verif.rs" | sort)
[ -n "$SRC_FILES" ] || die "no sources under $REPO/src"
strip() { awk '/^[[:space:]]*#\[cfg\(test\)\]/{exit} {print}' "$1" | sed -E 's://.*$::'; }
PAT_SEAMS='std::thread|thread::|thread_local|std::sync|sync::|Mutex|RwLock|Condvar|Barrier|mpsc|Atomic[A-Z]|atomic::|OnceLock|OnceCell|Once\b|LazyLock|LazyCell|lazy_static|once_cell|Cell<|RefCell|UnsafeCell|static[[:space:]]+(mut[[:space:]]+)?[A-Z_]+[[:space:]]*:|std::time|Instant|SystemTime|Duration|std::env|env::|std::fs|fs::|std::io|io::|std::net|std::process|File\b|Read\b|Write\b|BufRead|HashMap|HashSet|RandomState|rand::|getrandom|async[[:space:]]|\.await|Future|spawn|rayon|tokio|crossbeam|parking_lot|extern[[:space:]]+"|#\[link|libc::|try_reserve|catch_unwind|is_x86_feature_detected|is_aarch64_feature_detected|\bA?Rc<|\bA?Rc::|impl[[:space:]]+Drop'
hits=0
for f in $SRC_FILES; do
  out=$(strip "$f" | grep -nE "$PAT_SEAMS" || true)
  if [ -n "$out" ]; then
    hits=1
    while IFS= read -r l; do flag "seam token in ${f#$REPO/}:$l"; done <<<"$out"
  fi
done
[ $hits = 0 ] && note "no thread/sync/atomic/static/time/io/env/rng/hash/async/ffi/try_reserve/Drop token"
# The unsafe inventory is part of the premise (§2.1): exactly these sites.
unsafe_now=$(for f in $SRC_FILES; do strip "$f" | grep -nE 'unsafe[[:space:]]*\{|unsafe[[:space:]]+(fn|impl)' | sed "s|^|${f#$REPO/}:|"; done | sed -E 's/:[0-9]+:.*//' | sort | uniq -c | awk '{print $2"="$1}' | tr '\n' ' ')
unsafe_want="src/yuv_rgb.rs=2 src/yuv_rgb/transfer.rs=1 yuvxyb-math/src/pow_exp.rs=1 "
if [ "$unsafe_now" = "$unsafe_want" ]; then note "unsafe inventory unchanged: $unsafe_now"
else flag "unsafe inventory changed: now [$unsafe_now] audited [$unsafe_want]"; fi

# ------------------------------------------------------- 2. runtime closure
echo "[2/5] runtime dependency closure"
AUDITED_DEPS="aligned-vec av-data byte-slice-cast bytes equator equator-macro log num-bigint num-derive num-integer num-rational num-traits proc-macro2 quote syn unicode-ident v_frame yuvxyb yuvxyb-math"
tree=$(cd "$REPO" && cargo tree -e normal --offline --prefix none 2>"$SCRATCH/tree.err") || { cat "$SCRATCH/tree.err"; die "cargo tree failed"; }
now_deps=$(echo "$tree" | awk '{print $1}' | sort -u | tr '\n' ' ')
for d in $now_deps; do
  case " $AUDITED_DEPS " in *" $d "*) ;; *) flag "new runtime dependency: $d" ;; esac
done
note "closure: $now_deps"

# --------------------------------------------- 3+4. probe: build and measure
echo "[3/5] auto traits (compile-time) and seam counters"
cp -r "$HERE/probe" "$SCRATCH/probe" || die "copy probe"
sed -i "s|REPO_PATH|$REPO|g" "$SCRATCH/probe/Cargo.toml"
cp "$REPO/Cargo.lock" "$SCRATCH/probe/Cargo.lock" 2>/dev/null
export CARGO_TARGET_DIR="$SCRATCH/target"
if ! (cd "$SCRATCH/probe" && cargo build --release --offline >"$SCRATCH/build.log" 2>&1); then
  if grep -qE 'cannot be (sent|shared) between threads|may not be safely transferr?ed across an unwind|the trait bound .*(Send|Sync|UnwindSafe|RefUnwindSafe|Unpin|Clone)' "$SCRATCH/build.log"; then
    flag "a public image type lost Send/Sync/UnwindSafe/RefUnwindSafe/Clone (interior mutability or !Sync state appeared)"
    grep -E '^error' "$SCRATCH/build.log" | head -5 | sed 's/^/     /'
  else
    tail -30 "$SCRATCH/build.log"; die "probe does not build against $REPO"
  fi
else
  note "Yuv<u8>, Yuv<u16>, Rgb, LinearRgb, Xyb, Hsl, YuvConfig: Send+Sync+Unpin+UnwindSafe+RefUnwindSafe+Clone"
  BIN="$SCRATCH/target/release/yuvxyb-applicability-probe"
  "$BIN" seams >"$SCRATCH/seams.out" 2>&1 || { cat "$SCRATCH/seams.out"; die "probe seams run failed"; }
  # second run must be byte-identical (no ambient state leaks into outputs/counters)
  "$BIN" seams >"$SCRATCH/seams2.out" 2>&1
  cmp -s "$SCRATCH/seams.out" "$SCRATCH/seams2.out" || flag "two runs of the seam probe differ (ambient nondeterminism)"
  sed 's/^/     /' "$SCRATCH/seams.out" | grep CALL
  # In-place conversions must stay allocation-free and nothing may log unless
  # given Unspecified metadata: a scratch-buffer pool, cache or LUT would show
  # up here as an allocation or a log line on a path audited as having none.
  while read -r _ rest; do
    name=${rest% allocs=*}; a=${rest##* allocs=}; a=${a%% *}; l=${rest##* logs=}
    case "$name" in
      *nspec*) ;;                                 # Unspecified-metadata paths log by design
      *) [ "$l" = 0 ] || flag "logger called on fully specified path: $name ($l)";;
    esac
    want=$(audited_allocs "$name")
    [ "$a" = "$want" ] || flag "allocation count changed on $name: now $a, audited $want (scratch buffer, cache or pool?)"
  done < <(grep '^CALL ' "$SCRATCH/seams.out")

  echo "[4/5] system calls between first and last conversion"
  if command -v strace >/dev/null; then
    strace -f -o "$SCRATCH/strace.out" "$BIN" seams >/dev/null 2>&1 || die "strace run failed"
    awk '/write\(1, "BEGIN-CONVERSIONS/{on=1; next} /write\(1, "END-CONVERSIONS/{on=0} on' "$SCRATCH/strace.out" \
      | grep -vE '^[0-9]+ +write\(1, "CALL ' >"$SCRATCH/sys.between" || true
    if [ -s "$SCRATCH/sys.between" ]; then
      # brk/mmap/munmap/mremap are the allocator seam (§5.2), already audited.
      other=$(grep -vE '^[0-9]+ +(brk|mmap|munmap|mremap|madvise)\(' "$SCRATCH/sys.between" || true)
      if [ -n "$other" ]; then
        names=$(echo "$other" | sed -E 's/^[0-9]+ +//; s/^<\.\.\. ([a-z_0-9]+) resumed.*/\1(/' | grep -oE '^[a-z_0-9]+' | sort | uniq -c | awk '{printf "%s x%s ", $2, $1}')
        flag "syscalls during conversions (audited: none): $names"
      else note "only allocator syscalls (brk/mmap) between BEGIN and END"; fi
    else
      note "no syscall other than the probe's own output between BEGIN and END"
    fi
    grep -qE 'write\(1, "BEGIN-CONVERSIONS' "$SCRATCH/strace.out" || die "strace output lacks BEGIN marker"
  else
    die "strace not installed"
  fi

  echo "[5/5] history independence: seeded call histories vs. each call isolated in a fresh process"
  nops=$("$BIN" nops) || die "probe nops"
  : >"$SCRATCH/iso.txt"
  for i in $(seq 0 $((nops-1))); do
    "$BIN" iso "$i" >>"$SCRATCH/iso.txt" 2>"$SCRATCH/iso.err" || { cat "$SCRATCH/iso.err"; die "probe iso $i failed"; }
  done
  HSEEDS=4; HLEN=600; [ "$DEEP" = 1 ] && { HSEEDS=32; HLEN=3000; }
  hbad=0
  for k in $(seq 0 $((HSEEDS-1))); do
    hs=$((SEED*1000+k))
    "$BIN" hist "$hs" "$HLEN" >"$SCRATCH/hist.txt" 2>"$SCRATCH/hist.err" || { flag "history run seed=$hs crashed: $(tail -1 "$SCRATCH/hist.err")"; hbad=1; break; }
    bad=$(awk 'NR==FNR{iso[$2]=$3; next} iso[$2]!=$3{print "op " $2 " at " $4 ": in-history " $3 " isolated " iso[$2]; exit}' "$SCRATCH/iso.txt" "$SCRATCH/hist.txt")
    if [ -n "$bad" ]; then flag "result depends on call history (probe hist $hs $HLEN): $bad"; hbad=1; break; fi
  done
  [ $hbad = 0 ] && note "$nops ops x $HSEEDS seeded histories of $HLEN calls (main thread + long-lived worker): every digest equals the isolated one"

  if [ "$DEEP" = 1 ]; then
    echo "[deep] thread probe (shared borrows + seeded per-thread op sequences), native x40 then Miri seeds $SEED..$((SEED+32))"
    for i in $(seq 40); do
      "$BIN" threads 8 $((SEED*100+i)) 400 >"$SCRATCH/thr.out" 2>&1 || { flag "native thread probe (probe threads 8 $((SEED*100+i)) 400): $(grep -m1 DIVERGED "$SCRATCH/thr.out" || tail -1 "$SCRATCH/thr.out")"; break; }
    done
    export MIRIFLAGS="-Zmiri-many-seeds=$SEED..$((SEED+32)) -Zmiri-preemption-rate=0.2"
    if (cd "$SCRATCH/probe" && CARGO_TARGET_DIR="$SCRATCH/miri-target" cargo +nightly miri run --offline -- threads 3 "$SEED" 4 >"$SCRATCH/miri.out" 2>&1); then
      note "Miri: 32 seeded schedules, no data race, results bit-identical, sources unchanged"
    else
      if grep -qE 'Undefined Behavior|Data race|THREADS-DIVERGED' "$SCRATCH/miri.out"; then
        flag "Miri thread probe: $(grep -m1 -E 'Undefined Behavior|Data race|THREADS-DIVERGED' "$SCRATCH/miri.out")"
      else tail -20 "$SCRATCH/miri.out"; die "miri run failed for a reason other than UB"; fi
    fi
  fi
fi

echo
if [ ${#changed[@]} -eq 0 ]; then
  echo "PREMISE-HOLDS: no schedule, clock, I/O, RNG or shared-mutable-state seam in yuvxyb (default features): the sixteen numeric properties remain not applicable to deterministic simulation, and the independence clauses of C07/C11/C12/C15 hold for the reason DESIGN.md §0 gives"
  exit 0
fi
for c in "${changed[@]}"; do echo "PREMISE-CHANGED: $c"; done
echo "see /verif/DESIGN.md §8 for the properties this pulls into scope"
exit 3
